package zzverif

import (
	"fmt"

	"github.com/maypok86/otter/v2/internal/generated/node"
	"github.com/maypok86/otter/v2/internal/lossy"
	"verifsim/simrt"
)

// runLossy: tasks 0..n-2 are producers ("add" xN), the last task is the draining consumer.
func (cr *compRun) runLossy() {
	w, cc := cr.w, cr.cc
	nm := node.NewManager[int, int](node.Config{})
	s := lossy.NewStriped(cc.Size, nm)
	ring := lossy.VerifRingSize()
	capacity := cc.Size * ring
	success := map[int]bool{}
	attempted := map[int]bool{}
	statusN := map[string]int{}
	delivered := map[int]int{}
	nprod := len(cc.Tasks) - 1
	done := 0
	maxLen := 0
	drain := func() {
		s.DrainTo(func(n node.Node[int, int]) {
			delivered[n.Key()]++
			w.Log(uint64(n.Key()))
		})
	}
	var tasks []*simrt.Task
	for ti := 0; ti < nprod; ti++ {
		ti := ti
		ops := cc.Tasks[ti]
		tasks = append(tasks, w.Spawn(fmt.Sprintf("r%d", ti), func() {
			seq := 0
			for _, op := range ops {
				simrt.BeginOp(simrt.HashString(op.Kind))
				switch op.Kind {
				case "add":
					for i := 0; i < op.N; i++ {
						id := (ti+1)*100000 + seq
						seq++
						n := nm.Create(id, id, 0, 0, 1)
						attempted[id] = true
						st := s.Add(n)
						switch st {
						case lossy.Success:
							success[id] = true
							statusN["success"]++
						case lossy.Failed:
							statusN["failed"]++
						case lossy.Full:
							statusN["full"]++
						default:
							cr.fail(P("C17"), "lossy.bad-status", id, "Add returned status %d", st)
						}
					}
				case "yield":
					simrt.Yield()
				}
			}
			done++
		}))
	}
	consumer := w.Spawn("drainer", func() {
		for _, op := range cc.Tasks[nprod] {
			simrt.BeginOp(simrt.HashString(op.Kind))
			switch op.Kind {
			case "drain":
				if l := s.Len(); l > maxLen {
					maxLen = l
				}
				drain()
			case "len":
				if l := s.Len(); l > maxLen {
					maxLen = l
				}
			case "yield":
				simrt.Yield()
			}
		}
	})
	for _, t := range tasks {
		w.Join(t)
	}
	w.Join(consumer)
	w.SetFair(true)
	if l := s.Len(); l > maxLen {
		maxLen = l
	}
	// quiescent: one final drain must deliver everything that was recorded successfully
	drain()
	// ... and so must every later one: a few late recordings, one at a time from fresh tasks (their
	// probes may land on stripes that are not attached yet), each followed by a drain at quiescence
	for i := 0; i < 1+(len(cc.Tasks)+cc.Size)%4; i++ {
		id := 9_000_000 + i
		var st lossy.Status
		late := w.Spawn(fmt.Sprintf("late%d", i), func() {
			attempted[id] = true
			st = s.Add(nm.Create(id, id, 0, 0, 1))
		})
		w.Join(late)
		if st == lossy.Success {
			success[id] = true
			statusN["success-late"]++
		}
		drain()
		if st == lossy.Success && delivered[id] == 0 {
			cr.fail(P("C17"), "lossy.lost", id, "entry %d was recorded successfully at quiescence but the drain that followed did not deliver it", id)
		}
	}
	if maxLen > capacity {
		cr.fail(P("C17"), "lossy.capacity", -1, "Len()=%d exceeds the fixed capacity %d (%d stripes x %d)", maxLen, capacity, cc.Size, ring)
	}
	for id, n := range delivered {
		if !attempted[id] {
			cr.fail(P("C17"), "lossy.unknown-entry", id, "the buffer delivered entry %d which was never recorded", id)
		} else if !success[id] {
			cr.fail(P("C17"), "lossy.refused-delivered", id, "entry %d was delivered although its Add did not report success", id)
		}
		if n > 1 {
			cr.fail(P("C17"), "lossy.duplicate", id, "entry %d was delivered %d times", id, n)
		}
	}
	for id := range success {
		if delivered[id] == 0 {
			cr.fail(P("C17"), "lossy.lost", id, "entry %d was recorded successfully but not delivered by the final drain at quiescence", id)
		}
	}
	if s.Len() != 0 {
		cr.fail(P("C17"), "lossy.len-after-drain", -1, "Len()=%d after the final drain", s.Len())
	}
	for k, v := range statusN {
		cr.probe["lossy-add-"+k] += v
	}
	cr.out.NonTrivial = statusN["success"] > 0 && cr.w.Switches > 2
}

func genLossyCase(rng *simrt.Rng) *CompCase {
	cc := &CompCase{Kind: "lossy", Parallelism: 4}
	cc.Size = []int{1, 2, 4, 8, 16}[rng.Intn(5)]
	cc.PoolMode = rng.Intn(3)
	nprod := 2 + rng.Intn(7)
	for p := 0; p < nprod; p++ {
		var ops []COp
		n := 1 + rng.Intn(5)
		for i := 0; i < n; i++ {
			if rng.Intn(4) == 0 {
				ops = append(ops, COp{Kind: "yield"})
			}
			k := 1 + rng.Intn(10)
			if rng.Intn(8) == 0 {
				k = 17 + rng.Intn(20)
			}
			ops = append(ops, COp{Kind: "add", N: k})
		}
		cc.Tasks = append(cc.Tasks, ops)
	}
	var cons []COp
	n := rng.Intn(8)
	for i := 0; i < n; i++ {
		switch rng.Intn(4) {
		case 0:
			cons = append(cons, COp{Kind: "yield"})
		case 1:
			cons = append(cons, COp{Kind: "len"})
		default:
			cons = append(cons, COp{Kind: "drain"})
		}
	}
	cc.Tasks = append(cc.Tasks, cons)
	return cc
}
