//go:build verif

package hashmap

// VerifResizes returns how often the table grew and shrank.
func (m *Map[K, V, N]) VerifResizes() (growths, shrinks int) {
	return int(m.totalGrowths.Load()), int(m.totalShrinks.Load())
}

// VerifTableLen returns the current number of root buckets.
func (m *Map[K, V, N]) VerifTableLen() int { return len(m.table.Load().buckets) }
