package simrt

import (
	"os"
	"runtime"
	"strings"
	"sync"
)

// Strategy decides context switches in generation mode. Decisions that differ from the default
// rule are recorded as deviations by the world; replay never consults a strategy.
type Strategy interface {
	Name() string
	Init(w *World)
	OnSpawn(w *World, t *Task)
	OnWake(w *World, t *Task)
	// OnSpin: t was forced to yield because it looks like a spin loop.
	OnSpin(w *World, t *Task)
	// PickPoint: the current task could continue. Return nil or t to stay.
	PickPoint(w *World, t *Task) *Task
	// PickBlocked: the current task cannot continue; return a runnable task or nil.
	PickBlocked(w *World, t *Task) *Task
}

// StayStrategy never preempts (the default rule itself).
type StayStrategy struct{}

func (*StayStrategy) Name() string                        { return "stay" }
func (*StayStrategy) Init(*World)                         {}
func (*StayStrategy) OnSpawn(*World, *Task)               {}
func (*StayStrategy) OnWake(*World, *Task)                {}
func (*StayStrategy) OnSpin(*World, *Task)                {}
func (*StayStrategy) PickPoint(w *World, t *Task) *Task   { return t }
func (*StayStrategy) PickBlocked(w *World, t *Task) *Task { return w.defaultNextNoQuiesce(t) }

func (w *World) defaultNextNoQuiesce(t *Task) *Task {
	var best *Task
	for _, a := range w.active {
		if a.state == stRunnable && a != t && (best == nil || a.ID < best.ID) {
			best = a
		}
	}
	return best
}

// RandomWalk switches at each point with probability Num/Den to a uniformly chosen runnable task.
type RandomWalk struct {
	Num, Den int
	buf      []*Task
}

func (s *RandomWalk) Name() string          { return "random-walk" }
func (s *RandomWalk) Init(*World)           {}
func (s *RandomWalk) OnSpawn(*World, *Task) {}
func (s *RandomWalk) OnWake(*World, *Task)  {}
func (s *RandomWalk) OnSpin(*World, *Task)  {}
func (s *RandomWalk) PickPoint(w *World, t *Task) *Task {
	if !w.schedRng.Chance(s.Num, s.Den) {
		return t
	}
	s.buf = w.Runnable(t, s.buf)
	if len(s.buf) == 0 {
		return t
	}
	return s.buf[w.schedRng.Intn(len(s.buf))]
}
func (s *RandomWalk) PickBlocked(w *World, t *Task) *Task {
	s.buf = w.Runnable(t, s.buf)
	if len(s.buf) == 0 {
		return nil
	}
	return s.buf[w.schedRng.Intn(len(s.buf))]
}

// PCT: random priorities; the highest-priority runnable task runs; at D randomly chosen steps the
// running task's priority drops below all others. Bounded starvation: after StarveLimit consecutive
// points of one task while others are runnable its priority is dropped too.
type PCT struct {
	D           int
	Horizon     uint64 // expected number of steps; change points are drawn in [0,Horizon)
	StarveLimit int
	change      map[uint64]bool
	low         int64
	run         int
	buf         []*Task
}

func (s *PCT) Name() string { return "pct" }
func (s *PCT) Init(w *World) {
	s.change = map[uint64]bool{}
	if s.Horizon == 0 {
		s.Horizon = 2000
	}
	for i := 0; i < s.D; i++ {
		s.change[w.schedRng.Uint64()%s.Horizon] = true
	}
	s.low = -1
	if s.StarveLimit == 0 {
		s.StarveLimit = 400
	}
}
func (s *PCT) OnSpawn(w *World, t *Task) { t.prio = int64(w.schedRng.Uint64()>>2) + 1 }
func (s *PCT) OnWake(*World, *Task)      {}

// OnSpin: a spinning task waits for somebody else; give everybody else precedence.
func (s *PCT) OnSpin(w *World, t *Task) { t.prio = s.low; s.low-- }
func (s *PCT) best(w *World, t *Task, includeT bool) *Task {
	var best *Task
	if includeT {
		best = t
	}
	for _, a := range w.active {
		if a.state == stRunnable && a != t && (best == nil || a.prio > best.prio) {
			best = a
		}
	}
	return best
}
func (s *PCT) PickPoint(w *World, t *Task) *Task {
	s.run++
	if s.change[w.Steps] || s.run > s.StarveLimit {
		t.prio = s.low
		s.low--
		s.run = 0
	}
	b := s.best(w, t, true)
	if b != t {
		s.run = 0
	}
	return b
}
func (s *PCT) PickBlocked(w *World, t *Task) *Task {
	s.run = 0
	return s.best(w, t, false)
}

// Bursts: run tasks to completion in random order except at K randomly chosen steps, where a
// random runnable task preempts (few-preemption schedules; shrink well).
type Bursts struct {
	K       int
	Horizon uint64
	at      map[uint64]bool
	buf     []*Task
}

func (s *Bursts) Name() string { return "bursts" }
func (s *Bursts) Init(w *World) {
	s.at = map[uint64]bool{}
	if s.Horizon == 0 {
		s.Horizon = 2000
	}
	for i := 0; i < s.K; i++ {
		s.at[w.schedRng.Uint64()%s.Horizon] = true
	}
}
func (s *Bursts) OnSpawn(*World, *Task) {}
func (s *Bursts) OnWake(*World, *Task)  {}
func (s *Bursts) OnSpin(*World, *Task)  {}
func (s *Bursts) PickPoint(w *World, t *Task) *Task {
	if !s.at[w.Steps] {
		return t
	}
	s.buf = w.Runnable(t, s.buf)
	if len(s.buf) == 0 {
		return t
	}
	return s.buf[w.schedRng.Intn(len(s.buf))]
}
func (s *Bursts) PickBlocked(w *World, t *Task) *Task {
	s.buf = w.Runnable(t, s.buf)
	if len(s.buf) == 0 {
		return nil
	}
	return s.buf[w.schedRng.Intn(len(s.buf))]
}

// Windows: like RandomWalk, but preemption is only enabled inside a few random step windows
// (dense interleaving around a few places, sequential elsewhere).
type Windows struct {
	N        int
	Len      uint64
	Horizon  uint64
	Num, Den int
	starts   []uint64
	buf      []*Task
}

func (s *Windows) Name() string { return "windows" }
func (s *Windows) Init(w *World) {
	if s.Horizon == 0 {
		s.Horizon = 2000
	}
	for i := 0; i < s.N; i++ {
		s.starts = append(s.starts, w.schedRng.Uint64()%s.Horizon)
	}
}
func (s *Windows) OnSpawn(*World, *Task) {}
func (s *Windows) OnWake(*World, *Task)  {}
func (s *Windows) OnSpin(*World, *Task)  {}
func (s *Windows) in(step uint64) bool {
	for _, st := range s.starts {
		if step >= st && step < st+s.Len {
			return true
		}
	}
	return false
}
func (s *Windows) PickPoint(w *World, t *Task) *Task {
	if !s.in(w.Steps) || !w.schedRng.Chance(s.Num, s.Den) {
		return t
	}
	s.buf = w.Runnable(t, s.buf)
	if len(s.buf) == 0 {
		return t
	}
	return s.buf[w.schedRng.Intn(len(s.buf))]
}
func (s *Windows) PickBlocked(w *World, t *Task) *Task {
	s.buf = w.Runnable(t, s.buf)
	if len(s.buf) == 0 {
		return nil
	}
	return s.buf[w.schedRng.Intn(len(s.buf))]
}

// Sites: site-targeted preemption. A scheduling *site* is the innermost frame outside the simulator
// (the line of instrumented code that performs the lock / atomic / channel / clock operation). Per
// run a salted hash of the site's name ("function:line", independent of the binary's layout) makes
// about one site in Mod "hot"; the running task is preempted at hot sites with probability
// HotNum/HotDen and almost never elsewhere, so a run concentrates its switches on a handful of
// places (say, the CASes of the drain-status protocol, or the gap between a table update and the
// write-buffer offer) and hits the same window again and again. Sites only *generate* deviations;
// the recorded schedule is the usual (task, point, to) list, so replay never looks at a PC.
type Sites struct {
	Salt           uint64
	Mod            uint64
	HotNum, HotDen int
	ColdDen        int
	buf            []*Task
	HotHits        uint64
}

type siteKey [6]uintptr

var (
	siteMu    sync.Mutex
	siteNames = map[siteKey]uint64{} // pure memo: PCs -> hash of the site's name
)

// siteHash returns the hash of the name of the innermost non-simulator frame of the caller.
func siteHash() uint64 {
	var k siteKey
	n := runtime.Callers(5, k[:])
	siteMu.Lock()
	h, ok := siteNames[k]
	siteMu.Unlock()
	if ok {
		return h
	}
	name := "?"
	fr := runtime.CallersFrames(k[:n])
	for {
		f, more := fr.Next()
		if f.Function != "" && !strings.HasPrefix(f.Function, "verifsim/") && !strings.HasPrefix(f.Function, "runtime.") {
			name = f.Function + ":" + itoa(f.Line)
			break
		}
		if !more {
			break
		}
	}
	h = HashString(name)
	siteMu.Lock()
	siteNames[k] = h
	siteMu.Unlock()
	return h
}

func itoa(n int) string {
	if n == 0 {
		return "0"
	}
	var b [20]byte
	i := len(b)
	for n > 0 {
		i--
		b[i] = byte('0' + n%10)
		n /= 10
	}
	return string(b[i:])
}

func (s *Sites) Name() string          { return "sites" }
func (s *Sites) Init(*World)           {}
func (s *Sites) OnSpawn(*World, *Task) {}
func (s *Sites) OnWake(*World, *Task)  {}
func (s *Sites) OnSpin(*World, *Task)  {}
func (s *Sites) PickPoint(w *World, t *Task) *Task {
	hot := Mix(s.Salt, siteHash())%s.Mod == 0
	if hot {
		s.HotHits++
		if !w.schedRng.Chance(s.HotNum, s.HotDen) {
			return t
		}
	} else if !w.schedRng.Chance(1, s.ColdDen) {
		return t
	}
	s.buf = w.Runnable(t, s.buf)
	if len(s.buf) == 0 {
		return t
	}
	return s.buf[w.schedRng.Intn(len(s.buf))]
}
func (s *Sites) PickBlocked(w *World, t *Task) *Task {
	s.buf = w.Runnable(t, s.buf)
	if len(s.buf) == 0 {
		return nil
	}
	return s.buf[w.schedRng.Intn(len(s.buf))]
}

// OpSites: the same idea without looking at the stack. A site is (kind of the operation the task is
// executing, number of scheduling points the task has passed since that operation began); the n-th
// point of a Set is - until paths diverge - the same place in the code every time a Set runs, so a
// hot (kind, n) pair preempts every such operation of the run in the same window. Background tasks
// (maintenance, reloads) count from their start. Costs nothing per point beyond one hash.
type OpSites struct {
	Salt           uint64
	Mod            uint64
	HotNum, HotDen int
	ColdDen        int
	buf            []*Task
}

// BeginOp marks the start of an operation of the given kind on the current task (harness only).
func BeginOp(kind uint64) {
	if w := W; w != nil && w.cur != nil {
		w.cur.opKind, w.cur.opBase = kind, w.cur.points
	}
}

func (s *OpSites) Name() string          { return "op-sites" }
func (s *OpSites) Init(*World)           {}
func (s *OpSites) OnSpawn(*World, *Task) {}
func (s *OpSites) OnWake(*World, *Task)  {}
func (s *OpSites) OnSpin(*World, *Task)  {}
func (s *OpSites) PickPoint(w *World, t *Task) *Task {
	if Mix(s.Salt^t.opKind, t.points-t.opBase)%s.Mod == 0 {
		if !w.schedRng.Chance(s.HotNum, s.HotDen) {
			return t
		}
	} else if !w.schedRng.Chance(1, s.ColdDen) {
		return t
	}
	s.buf = w.Runnable(t, s.buf)
	if len(s.buf) == 0 {
		return t
	}
	return s.buf[w.schedRng.Intn(len(s.buf))]
}
func (s *OpSites) PickBlocked(w *World, t *Task) *Task {
	s.buf = w.Runnable(t, s.buf)
	if len(s.buf) == 0 {
		return nil
	}
	return s.buf[w.schedRng.Intn(len(s.buf))]
}

// Staller wraps a strategy and injects one stalled-task fault per run: at step At the running task is
// taken off the processor for Len scheduling points of the others ("slow or stalled node"; any Go
// schedule may do that to a goroutine). Everything else is the inner strategy's. Code that waits for
// another task with a bounded spin, a retry budget or a timeout meets its limit only this way.
type Staller struct {
	Inner   Strategy
	At, Len uint64
	done    bool
	buf     []*Task
}

func (s *Staller) Name() string              { return s.Inner.Name() + "+stall" }
func (s *Staller) Init(w *World)             { s.Inner.Init(w) }
func (s *Staller) OnSpawn(w *World, t *Task) { s.Inner.OnSpawn(w, t) }
func (s *Staller) OnWake(w *World, t *Task)  { s.Inner.OnWake(w, t) }
func (s *Staller) OnSpin(w *World, t *Task)  { s.Inner.OnSpin(w, t) }
func (s *Staller) PickPoint(w *World, t *Task) *Task {
	if !s.done && w.Steps >= s.At {
		s.done = true
		if w.BeginStall(t, s.Len) {
			s.buf = w.Runnable(t, s.buf)
			if len(s.buf) > 0 {
				return s.buf[w.schedRng.Intn(len(s.buf))]
			}
		}
	}
	return s.Inner.PickPoint(w, t)
}
func (s *Staller) PickBlocked(w *World, t *Task) *Task {
	c := s.Inner.PickBlocked(w, t)
	if c != nil && c == w.stall {
		s.buf = w.Runnable(t, s.buf)
		if len(s.buf) > 0 {
			return s.buf[0]
		}
	}
	return c
}

var forceStrategy = os.Getenv("VERIF_STRATEGY") // development aid: pin the strategy of every run

// DrawStrategy picks a strategy for a run from the schedule stream (swarm); one run in six also gets a
// stalled-task fault.
func DrawStrategy(r *Rng, horizon uint64) Strategy {
	s := drawStrategy(r, horizon)
	if forceStall == "1" || (forceStall == "" && r.Intn(6) == 0) {
		if horizon < 200 {
			horizon = 200
		}
		return &Staller{Inner: s, At: r.Uint64() % horizon, Len: 64 << uint(r.Intn(7))}
	}
	return s
}

var forceStall = os.Getenv("VERIF_STALL") // development aid: "1" every run, "0" never

func drawStrategy(r *Rng, horizon uint64) Strategy {
	if horizon < 200 {
		horizon = 200
	}
	pickN := r.Intn(13)
	switch forceStrategy {
	case "sites":
		pickN = 99
	case "opsites":
		pickN = 11
	case "walk":
		pickN = 0
	case "pct":
		pickN = 3
	case "bursts":
		pickN = 6
	case "windows":
		pickN = 8
	}
	switch pickN {
	case 10, 11, 12:
		mods := []uint64{4, 8, 16, 32, 64}
		hot := []int{1, 2, 2, 3, 4}
		return &OpSites{Salt: r.Uint64(), Mod: mods[r.Intn(len(mods))], HotNum: 1, HotDen: hot[r.Intn(len(hot))], ColdDen: 128 << uint(r.Intn(4))}
	case 99: // stack-based sites cost about 1 us per point: development aid only (VERIF_STRATEGY=sites)
		mods := []uint64{3, 6, 12, 24, 48}
		hot := []int{2, 2, 3, 4, 8}
		return &Sites{Salt: r.Uint64(), Mod: mods[r.Intn(len(mods))], HotNum: 1, HotDen: hot[r.Intn(len(hot))], ColdDen: 256 << uint(r.Intn(3))}
	case 0, 1, 2:
		dens := []int{2, 4, 8, 16, 32, 64, 128, 512}
		return &RandomWalk{Num: 1, Den: dens[r.Intn(len(dens))]}
	case 3, 4, 5:
		return &PCT{D: r.Intn(7), Horizon: horizon}
	case 6, 7:
		return &Bursts{K: 1 + r.Intn(6), Horizon: horizon}
	case 8, 9:
		fallthrough
	default:
		return &Windows{N: 1 + r.Intn(4), Len: uint64(10 + r.Intn(120)), Horizon: horizon, Num: 1, Den: 2 + r.Intn(4)}
	}
}
