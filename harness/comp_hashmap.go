package zzverif

import (
	"fmt"
	"sort"
	"time"
	"unsafe"

	"github.com/anishathalye/porcupine"
	"github.com/maypok86/otter/v2/internal/hashmap"
	"verifsim/simrt"
)

type hnode struct{ k, v int }

func (n *hnode) Key() int                  { return n.k }
func (n *hnode) Value() int                { return n.v }
func (n *hnode) AsPointer() unsafe.Pointer { return unsafe.Pointer(n) }

type hmgr struct{}

func (hmgr) FromPointer(p unsafe.Pointer) *hnode { return (*hnode)(p) }
func (hmgr) IsNil(n *hnode) bool                 { return n == nil }

const (
	stableBase = 1000 // prefilled, never modified by tasks
	victimBase = 5000 // prefilled, each deleted at most once
	growBase   = 20000
)

type hmHist struct {
	task, idx int
	op        COp
	call, ret uint64
	saw       int // -1: absent
	calls     int
	outV      int
	outOK     bool
	yielded   map[int][]int // range: key -> values
}

func (cr *compRun) runHashmap() {
	w, cc := cr.w, cr.cc
	m := hashmap.NewWithSize[int, int, *hnode](hmgr{}, cc.Size)
	var hist []*hmHist
	hasClear := false
	for _, t := range cc.Tasks {
		for _, op := range t {
			if op.Kind == "clear" {
				hasClear = true
			}
		}
	}
	// prefill: stable keys first, then victims
	nStable := cc.Stable
	if nStable > cc.Prefill {
		nStable = cc.Prefill
	}
	nVictim := cc.Prefill - nStable
	w.NoPreempt(func() {
		for i := 0; i < nStable; i++ {
			k := stableBase + i
			m.Compute(k, func(*hnode) *hnode { return &hnode{k, k*10 + 1} })
		}
		for i := 0; i < nVictim; i++ {
			k := victimBase + i
			m.Compute(k, func(*hnode) *hnode { return &hnode{k, k*10 + 1} })
		}
		for i := 0; i < cc.PreDelete && i < nVictim; i++ {
			m.Compute(victimBase+nVictim-1-i, func(*hnode) *hnode { return nil })
		}
	})
	exec := func(ti, i int, op COp) {
		h := &hmHist{task: ti, idx: i, op: op, call: w.Tick(), saw: -2}
		hist = append(hist, h)
		fn := func(kind string) func(old *hnode) *hnode {
			return func(old *hnode) *hnode {
				h.calls++
				simrt.Point(simrt.KCallback)
				if old == nil {
					h.saw = -1
				} else {
					h.saw = old.v
				}
				switch kind {
				case "put":
					return &hnode{op.K, op.V}
				case "del":
					return nil
				case "noop":
					return old
				case "putabsent":
					if old == nil {
						return &hnode{op.K, op.V}
					}
					return old
				}
				panic("bad kind")
			}
		}
		switch op.Kind {
		case "get", "stableget":
			n := m.Get(op.K)
			if n != nil {
				h.outV, h.outOK = n.v, true
				if n.k != op.K {
					cr.fail(P("C15"), "map.wrong-key", op.K, "Get(%d) returned a node with key %d", op.K, n.k)
				}
			}
		case "put", "del", "noop", "putabsent":
			n := m.Compute(op.K, fn(op.Kind))
			if n != nil {
				h.outV, h.outOK = n.v, true
			}
		case "range":
			h.yielded = map[int][]int{}
			m.Range(func(n *hnode) bool {
				h.yielded[n.k] = append(h.yielded[n.k], n.v)
				return true
			})
		case "size":
			h.outV = m.Size()
		case "clear":
			m.Clear()
		default:
			panic("bad hashmap op " + op.Kind)
		}
		h.ret = w.Tick()
		w.Log(uint64(ti)<<40 ^ uint64(i)<<24 ^ uint64(uint32(h.outV)))
	}
	var tasks []*simrt.Task
	for ti := range cc.Tasks {
		ti := ti
		ops := cc.Tasks[ti]
		tasks = append(tasks, w.Spawn(fmt.Sprintf("h%d", ti), func() {
			for i, op := range ops {
				simrt.BeginOp(simrt.HashString(op.Kind))
				exec(ti, i, op)
			}
		}))
	}
	for _, t := range tasks {
		w.Join(t)
	}
	w.SetFair(true)
	w.AwaitQuiescence()
	if live := w.BlockedTasks(); len(live) > 0 {
		cr.fail(P("C15"), "live.stuck-task", -1, "tasks still blocked after all operations returned: %v", live)
	}
	// final state
	final := map[int]int{}
	dups := 0
	m.Range(func(n *hnode) bool {
		if _, dup := final[n.k]; dup {
			dups++
		}
		final[n.k] = n.v
		return true
	})
	size := m.Size()
	growths, shrinks := m.VerifResizes()
	cr.probe["table-growths"] += growths
	cr.probe["table-shrinks"] += shrinks
	if dups > 0 {
		cr.fail(P("C15"), "map.range-duplicate", -1, "final Range yielded %d keys twice", dups)
	}
	if size != len(final) {
		cr.fail(P("C15", "C05"), "map.size", -1, "Size()=%d at quiescence but Range yields %d keys", size, len(final))
	}
	for k, v := range final {
		if n := m.Get(k); n == nil || n.v != v {
			cr.fail(P("C15"), "map.get-vs-range", k, "key %d is in the final Range (value %d) but Get does not return it", k, v)
		}
	}
	// expected final contents of keys with a single-writer history
	if !hasClear {
		for i := 0; i < nStable; i++ {
			k := stableBase + i
			if v, ok := final[k]; !ok || v != k*10+1 {
				cr.fail(P("C15"), "map.lost-key", k, "key %d was inserted and never removed but is not in the table at quiescence (growths %d, shrinks %d)", k, growths, shrinks)
			}
		}
	}
	cr.post = func() { cr.checkHashmap(hist, hasClear, growths+shrinks, nStable) }
}

func (cr *compRun) checkHashmap(hist []*hmHist, hasClear bool, resizes int, nStable int) {
	out := cr.out
	// once-only compute, stable reads, range duplicates
	type lastWrite struct {
		v    int
		call uint64
		ret  uint64
	}
	removedAt := map[[2]int]uint64{} // (key,value) -> ret of the operation that removed / replaced it
	for _, h := range hist {
		switch h.op.Kind {
		case "put", "del", "noop", "putabsent":
			if h.calls != 1 {
				cr.fail(P("C15", "C02"), "map.compute-calls", h.op.K, "compute function ran %d times for one Compute call (key %d)", h.calls, h.op.K)
			}
			if h.saw >= 0 && (h.op.Kind == "put" || h.op.Kind == "del") {
				removedAt[[2]int{h.op.K, h.saw}] = h.ret
			}
		case "stableget":
			if !hasClear && (!h.outOK || h.outV != h.op.K*10+1) {
				cr.fail(P("C15"), "map.lost-key", h.op.K, "Get(%d) = (%d,%v) although the key was inserted before and never removed", h.op.K, h.outV, h.outOK)
			}
		}
	}
	overlapResize := 0
	for _, h := range hist {
		if h.op.Kind != "range" {
			continue
		}
		for k, vs := range h.yielded {
			if len(vs) > 1 {
				cr.fail(P("C15"), "map.range-duplicate", k, "Range yielded key %d %d times (%v)", k, len(vs), vs)
			}
			for _, v := range vs {
				if r, ok := removedAt[[2]int{k, v}]; ok && r < h.call {
					cr.fail(P("C15", "C03"), "map.range-stale", k, "Range (started at %d) yielded key %d value %d which had been removed/replaced before it began (at %d)", h.call, k, v, r)
				}
			}
			if k >= stableBase && k < victimBase && !hasClear {
				continue
			}
		}
		if !hasClear {
			// stable keys are present for the whole duration of every Range
			n := 0
			for k := range h.yielded {
				if k >= stableBase && k < victimBase {
					n++
				}
			}
			if want := nStable; n != want {
				cr.fail(P("C15"), "map.range-missing", -1, "Range yielded %d of the %d keys that were present for its whole duration", n, want)
			}
		}
	}
	_ = overlapResize
	// per-key linearizability for hot keys (keys < stableBase)
	perKey := map[int][]porcupine.Operation{}
	c2 := func(x uint64) int64 { return int64(2 * x) }
	hot := map[int]bool{}
	for _, h := range hist {
		if h.op.K < stableBase && h.op.Kind != "range" && h.op.Kind != "size" && h.op.Kind != "clear" {
			hot[h.op.K] = true
		}
	}
	for _, h := range hist {
		add := func(k int, in hmIn, o hmOut) {
			perKey[k] = append(perKey[k], porcupine.Operation{ClientId: h.task, Input: in, Output: o, Call: c2(h.call), Return: c2(h.ret) + 1})
		}
		switch h.op.Kind {
		case "get":
			if hot[h.op.K] {
				add(h.op.K, hmIn{kind: "get"}, hmOut{v: h.outV, ok: h.outOK})
			}
		case "put", "del", "noop", "putabsent":
			if hot[h.op.K] {
				add(h.op.K, hmIn{kind: h.op.Kind, v: h.op.V, saw: h.saw}, hmOut{v: h.outV, ok: h.outOK})
			}
		case "range":
			for k := range hot {
				vs := h.yielded[k]
				if len(vs) == 1 {
					add(k, hmIn{kind: "get"}, hmOut{v: vs[0], ok: true})
				} else if len(vs) == 0 {
					add(k, hmIn{kind: "get"}, hmOut{})
				}
			}
		case "clear":
			for k := range hot {
				add(k, hmIn{kind: "clear"}, hmOut{})
			}
		}
	}
	keys := make([]int, 0, len(perKey))
	for k := range perKey {
		keys = append(keys, k)
	}
	sort.Ints(keys)
	overlaps := 0
	for _, k := range keys {
		ops := perKey[k]
		for i := range ops {
			for j := i + 1; j < len(ops); j++ {
				if ops[i].ClientId != ops[j].ClientId && ops[i].Call < ops[j].Return && ops[j].Call < ops[i].Return {
					overlaps++
				}
			}
		}
		if len(ops) < 2 || len(ops) > 60 {
			continue
		}
		res := porcupine.CheckOperationsTimeout(hmModel, ops, 2*time.Second)
		out.LinChecked++
		switch res {
		case porcupine.Unknown:
			out.LinUnknown++
		case porcupine.Illegal:
			sort.Slice(ops, func(i, j int) bool { return ops[i].Call < ops[j].Call })
			s := ""
			for _, o := range ops {
				s += fmt.Sprintf("\n    h%d [%d,%d] %+v -> %+v", o.ClientId, o.Call/2, o.Return/2, o.Input, o.Output)
			}
			cr.fail(P("C15"), "map.lin-illegal", k, "history of key %d on the table is not linearizable:%s", k, s)
		}
	}
	cr.probe["hot-key-overlaps"] += overlaps
	out.NonTrivial = overlaps > 0 && (resizes > 0 || cr.cc.Prefill == 0)
}

type hmIn struct {
	kind string
	v    int
	saw  int
}
type hmOut struct {
	v  int
	ok bool
}

var hmModel = (&porcupine.NondeterministicModel{
	Init: func() []interface{} { return []interface{}{kvState{}} },
	Step: func(state, input, output interface{}) []interface{} {
		s := state.(kvState)
		in := input.(hmIn)
		out := output.(hmOut)
		sawOK := func() bool {
			if s.present {
				return in.saw == s.v
			}
			return in.saw == -1
		}
		switch in.kind {
		case "get":
			if s.present != out.ok || (s.present && s.v != out.v) {
				return nil
			}
			return []interface{}{s}
		case "put":
			if !sawOK() || !out.ok || out.v != in.v {
				return nil
			}
			return []interface{}{kvState{present: true, v: in.v}}
		case "del":
			if !sawOK() || out.ok {
				return nil
			}
			return []interface{}{kvState{}}
		case "noop":
			if !sawOK() || out.ok != s.present || (s.present && out.v != s.v) {
				return nil
			}
			return []interface{}{s}
		case "putabsent":
			if !sawOK() {
				return nil
			}
			if s.present {
				if !out.ok || out.v != s.v {
					return nil
				}
				return []interface{}{s}
			}
			if !out.ok || out.v != in.v {
				return nil
			}
			return []interface{}{kvState{present: true, v: in.v}}
		case "clear":
			return []interface{}{kvState{}}
		}
		return nil
	},
}).ToModel()

func genHashmapCase(rng *simrt.Rng) *CompCase {
	cc := &CompCase{Kind: "hashmap"}
	cc.Parallelism = []int{1, 2, 3, 4, 5, 6, 7, 8, 12, 16}[rng.Intn(10)]
	if rng.Intn(3) == 0 {
		cc.HashMode = 1
	}
	cc.Size = []int{0, 0, 1, 200, 700}[rng.Intn(5)]
	mode := rng.Intn(6)
	if rng.Intn(12) == 0 {
		mode = 6
	}
	switch mode {
	case 6:
		// 256 -> 512 buckets: the parallel copy splits the source table into min(4, parallelism)
		// chunks, which does not divide 256 when the parallelism is 3
		cc.Prefill = 952 + rng.Intn(12)
		cc.Parallelism = []int{3, 3, 5, 6, 7, 4, 12}[rng.Intn(7)]
	case 0:
		cc.Prefill = rng.Intn(8)
	case 1:
		cc.Prefill = 108 + rng.Intn(14) // just below / at the first grow threshold (32 buckets)
	case 2:
		cc.Prefill = 232 + rng.Intn(12) // 64 -> 128
	case 3:
		cc.Prefill = 472 + rng.Intn(12) // 128 -> 256, parallel copy
	case 4:
		// grown once (64 buckets); almost everything is deleted again: shrink threshold is 2 entries
		cc.Prefill = 126 + rng.Intn(6)
		cc.Stable = rng.Intn(3)
		cc.PreDelete = cc.Prefill - cc.Stable - (1 + rng.Intn(6))
	case 5:
		// grown twice (128 buckets); shrink threshold is 5 entries
		cc.Prefill = 246 + rng.Intn(6)
		cc.Stable = rng.Intn(4)
		cc.PreDelete = cc.Prefill - cc.Stable - (1 + rng.Intn(8))
	}
	if mode < 4 || mode == 6 {
		cc.Stable = cc.Prefill / 2
	}
	if cc.Size >= 200 && mode >= 1 {
		cc.Size = 0 // a big size hint would move the thresholds away from the prefill
	}
	nStable := cc.Stable
	nVictim := cc.Prefill - nStable - cc.PreDelete
	if nVictim < 0 {
		nVictim = 0
	}
	hotKeys := 1 + rng.Intn(4)
	nt := 2 + rng.Intn(5)
	nextVal := 1
	victim := 0
	withClear := rng.Intn(12) == 0
	for t := 0; t < nt; t++ {
		n := 10 + rng.Intn(50)
		var ops []COp
		grow := 0
		for i := 0; i < n; i++ {
			nextVal++
			v := nextVal*16 + t
			switch x := rng.Intn(100); {
			case x < 18:
				ops = append(ops, COp{Kind: "get", K: rng.Intn(hotKeys)})
			case x < 34:
				ops = append(ops, COp{Kind: "put", K: rng.Intn(hotKeys), V: v})
			case x < 44:
				ops = append(ops, COp{Kind: "del", K: rng.Intn(hotKeys)})
			case x < 50:
				ops = append(ops, COp{Kind: "putabsent", K: rng.Intn(hotKeys), V: v})
			case x < 54:
				ops = append(ops, COp{Kind: "noop", K: rng.Intn(hotKeys)})
			case x < 64:
				if nStable > 0 {
					ops = append(ops, COp{Kind: "stableget", K: stableBase + rng.Intn(nStable)})
				}
			case x < 82:
				// a fresh key: pushes the table towards growth
				ops = append(ops, COp{Kind: "put", K: growBase + t*1000 + grow, V: v})
				grow++
			case x < 94:
				if victim < nVictim {
					ops = append(ops, COp{Kind: "del", K: victimBase + victim})
					victim++
				}
			case x < 97:
				ops = append(ops, COp{Kind: "range"})
			case x < 99:
				ops = append(ops, COp{Kind: "size"})
			default:
				if withClear {
					ops = append(ops, COp{Kind: "clear"})
				}
			}
		}
		cc.Tasks = append(cc.Tasks, ops)
	}
	return cc
}
