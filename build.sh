#!/bin/bash
# build.sh <scratch-dir>: copy /repo's working tree, instrument it, drop overlay + harness, build the worker.
# Exit 2 on any build / instrumentation trouble.
set -u
SCR="$1"
REPO="${VERIF_REPO:-/repo}"
VERIF="$(cd "$(dirname "$0")" && pwd)"
export GOFLAGS=-mod=mod GOPROXY=off GOSUMDB=off GOTOOLCHAIN=local CGO_ENABLED=0
export PATH=/opt/veriftools/go1.26.8/bin:$PATH
fail() { echo "build.sh: $*" >&2; exit 2; }
[ -x "$VERIF/bin/simrewrite" ] || (cd "$VERIF/tools/simrewrite" && go build -o "$VERIF/bin/simrewrite" .) || fail "cannot build simrewrite"
rm -rf "$SCR" && mkdir -p "$SCR/otter" || fail "scratch"
# working tree (tracked + untracked non-ignored files), minus separate modules / docs
(cd "$REPO" && { git ls-files -z; git ls-files -z --others --exclude-standard; } | grep -zv '^cmd/\|^benchmarks/\|^plugin/\|^docs/\|_test\.go$\|^\.git' | grep -z '\.go$\|^go\.mod$\|^go\.sum$' | rsync -a --from0 --files-from=- "$REPO/" "$SCR/otter/") || fail "copy"
cp -r "$VERIF/sim" "$SCR/verifsim" || fail "copy sim"
rm -rf "$SCR/verifsim/simrt/selftest"
cd "$SCR/otter" || fail "cd"
cat >> go.mod <<'EOM'

require verifsim v0.0.0

require github.com/anishathalye/porcupine v1.3.0

replace verifsim => ../verifsim
EOM
"$VERIF/bin/simrewrite" -dir . > "$SCR/rewrite.log" 2>&1 || { cat "$SCR/rewrite.log" >&2; fail "instrumentation failed"; }
cp "$VERIF/overlay/root/"*.go . || fail overlay
cp "$VERIF/overlay/expiration/"*.go internal/expiration/ || fail overlay
cp "$VERIF/overlay/hashmap/"*.go internal/hashmap/ || fail overlay
cp "$VERIF/overlay/lossy/"*.go internal/lossy/ || fail overlay
mkdir -p internal/zzverif && cp -r "$VERIF/harness/"* internal/zzverif/ || fail harness
go build -tags verif -o "$SCR/simworker" ./internal/zzverif/cmd/simworker > "$SCR/build.log" 2>&1 || { cat "$SCR/build.log" >&2; fail "go build failed"; }
cat "$SCR/rewrite.log"
exit 0
