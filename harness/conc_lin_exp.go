package zzverif

import (
	"fmt"
	"sort"
	"time"

	"github.com/anishathalye/porcupine"
	otter "github.com/maypok86/otter/v2"
)

// Deadline-aware linearizability (C03, concurrent form): the clock only moves at barriers, so every
// operation has one clock value. The sequential specification is the map with deadlines of
// Appendix A restricted to the built-in expiry policies (creating / writing / accessing with one
// duration): an entry is visible iff it is present and its deadline is after the operation's clock.

// With an asynchronously moving clock (AsyncClock engines) an operation's clock sample lies anywhere
// in [nowLo, nowHi] (clock at invocation / at return) and a deadline it computes lies in the
// corresponding interval; the state therefore carries bounds [lo, hi] of the entry's deadline. Each
// step branches over "the entry was visible to this operation" (possible iff hi > nowLo, and then
// the deadline is > nowLo) and "it was expired" (possible iff lo <= nowHi, and then the deadline is
// <= nowHi). With the clock fixed during an operation (rounds) both collapse to the exact model.
type expState struct {
	present bool
	v       int
	lo, hi  int64
}

type expIn struct {
	kind     string
	v        int
	comp     string
	calls    int
	saw      int
	sawFound bool
	nowLo    int64
	nowHi    int64
	d        int64  // the policy's duration
	pol      string // creating | writing | accessing
	dur      int64  // setexpires
	cause    otter.DeletionCause
	async    bool
}

func expStep(state, input, output interface{}) []interface{} {
	s := state.(expState)
	in := input.(expIn)
	if in.kind == "evict" {
		if !s.present || s.v != in.v {
			return nil
		}
		// with a fixed clock an expiration before the deadline is a lie; with a moving clock a
		// concurrent read may have extended the deadline after the wheel decided (accepted: the
		// properties forbid seeing an entry after its deadline, not losing a racing extension)
		if in.cause == otter.CauseExpiration && !in.async && s.lo > in.nowHi {
			return nil
		}
		return []interface{}{expState{}}
	}
	// No narrowing of [lo, hi] after an observation: otter's writes decide under the bucket lock but
	// publish the new node later, and lock-free readers keep working on the old node in between (a
	// reader with an older clock sample may even move its deadline backwards), so successive
	// observations of one entry need not be explainable by a single deadline value. The bounds
	// still decide the property: visible only if the latest possible deadline is ahead of the
	// operation's earliest clock value, absent only if the earliest possible deadline has passed.
	var res []interface{}
	if s.present && s.hi > in.nowLo {
		res = append(res, expStepVis(s, in, output.(linOut), true)...)
	}
	if !s.present || s.lo <= in.nowHi {
		res = append(res, expStepVis(s, in, output.(linOut), false)...)
	}
	return res
}

func expStepVis(s expState, in expIn, out linOut, vis bool) []interface{} {
	same := []interface{}{s}
	expect := func(v int, ok bool) bool { return !out.panic && out.v == v && out.ok == ok }
	create := func(v int) expState { return expState{true, v, in.nowLo + in.d, in.nowHi + in.d} }
	update := func(v int) expState {
		if in.pol == "creating" {
			return expState{true, v, s.lo, s.hi}
		}
		return create(v)
	}
	read := func() expState {
		if in.pol == "accessing" {
			return expState{true, s.v, in.nowLo + in.d, in.nowHi + in.d}
		}
		return s
	}
	write := func(v int) expState {
		if vis {
			return update(v)
		}
		return create(v)
	}
	switch in.kind {
	case "set":
		if vis {
			if !expect(s.v, false) {
				return nil
			}
		} else if !expect(in.v, true) {
			return nil
		}
		return []interface{}{write(in.v)}
	case "setifabsent":
		if vis {
			if !expect(s.v, false) {
				return nil
			}
			return []interface{}{read()}
		}
		if !expect(in.v, true) {
			return nil
		}
		return []interface{}{create(in.v)}
	case "get":
		if vis {
			if !expect(s.v, true) {
				return nil
			}
			return []interface{}{read()}
		}
		if !expect(0, false) {
			return nil
		}
		return same
	case "touch":
		// the lock-free lookup that ComputeIfAbsent / ComputeIfPresent perform before their table
		// computation: an unreported read at some point of the call (it extends the deadline under
		// expire-after-access when it hits)
		if vis {
			return []interface{}{read()}
		}
		return same
	case "getquiet":
		// GetEntryQuietly additionally hides entries that are being replaced at that instant (it
		// filters nodes that are no longer alive); a miss is therefore always acceptable, a hit must
		// return the visible value. (The property forbids seeing dead values, not missing live ones.)
		if out.ok && (!vis || !expect(s.v, true)) {
			return nil
		}
		return same
	case "invalidate":
		if vis {
			if !expect(s.v, true) {
				return nil
			}
		} else if !expect(0, false) {
			return nil
		}
		return []interface{}{expState{}}
	case "setexpires":
		// an override that races a write of the same key may be applied to the node that is being
		// replaced and get lost: both outcomes are accepted (sequentially it is exact: C01 / C12)
		if vis && in.dur > 0 {
			if in.async {
				// ... and when it is applied to the old node after the racing write copied the deadline
				// but before it published, readers see it for a while: the bounds are widened
				return []interface{}{expState{true, s.v, min(s.lo, in.nowLo+in.dur), max(s.hi, in.nowHi+in.dur)}}
			}
			return []interface{}{s, expState{true, s.v, in.nowLo + in.dur, in.nowHi + in.dur}}
		}
		return same
	case "compute", "computeifpresent":
		if in.calls == 0 {
			if in.kind == "compute" || vis || !expect(0, false) {
				return nil
			}
			return same
		}
		if in.kind == "computeifpresent" && !vis {
			return nil
		}
		cur, ok := 0, false
		if vis {
			cur, ok = s.v, true
		}
		if in.saw != cur || in.sawFound != ok {
			return nil
		}
		st := s // the fast-path lookup of ComputeIfPresent is a separate "touch" step
		switch in.comp {
		case "write":
			if !expect(in.v, true) {
				return nil
			}
			w := write(in.v)
			if in.kind == "computeifpresent" && in.pol == "creating" {
				w.lo, w.hi = st.lo, st.hi
			}
			return []interface{}{w}
		case "inval":
			if !expect(0, false) {
				return nil
			}
			return []interface{}{expState{}}
		case "cancel":
			if !expect(cur, ok) {
				return nil
			}
			if vis && in.pol == "accessing" {
				// whether a cancelled compute counts as a read is not specified
				return []interface{}{st, read()}
			}
			return []interface{}{st}
		case "panic":
			if !out.panic {
				return nil
			}
			return []interface{}{st}
		}
		return nil
	case "computeifabsent":
		if in.calls == 0 {
			if !vis || !expect(s.v, true) {
				return nil
			}
			return same // the lock-free lookup is a separate "touch" step
		}
		if vis {
			return nil
		}
		switch in.comp {
		case "write":
			if !expect(in.v, true) {
				return nil
			}
			return []interface{}{create(in.v)}
		case "cancel":
			if !expect(0, false) {
				return nil
			}
			return same
		case "panic":
			if !out.panic {
				return nil
			}
			return same
		}
		return nil
	}
	return nil
}

var expModel = (&porcupine.NondeterministicModel{
	Init: func() []interface{} { return []interface{}{expState{}} },
	Step: expStep,
}).ToModel()

func (cr *concRun) checkLinExp(out *ConcOutcome) {
	cfg := &cr.cc.Cfg
	if !cfg.withExpiry() || cfg.Expiry == "custom" {
		return
	}
	perKey := map[int][]porcupine.Operation{}
	skip := map[int]bool{}
	c2 := func(x uint64) int64 { return int64(2 * x) }
	for _, h := range cr.hist {
		op := h.Op
		keys := keysOf(op)
		switch op.Kind {
		case "set", "setifabsent", "get", "getentry", "getquiet", "invalidate", "compute", "computeifabsent", "computeifpresent", "setexpires":
		default:
			for _, k := range keys {
				skip[k] = true
			}
			if op.Kind == "invalidateall" {
				for k := 0; k < cfg.Keys+2; k++ {
					skip[k] = true
				}
			}
			continue
		}
		k := op.K
		if !h.Done {
			skip[k] = true
			continue
		}
		in := expIn{kind: op.Kind, v: op.V, comp: op.Comp, calls: h.Res.CompCalls, saw: h.Res.CompSaw, sawFound: h.Res.CompFound,
			nowLo: h.Now, nowHi: h.NowRet, d: cfg.ExpD, pol: cfg.Expiry, dur: op.D, async: cr.opts.AsyncClock}
		if op.Kind == "getentry" {
			in.kind = "get"
		}
		res := linOut{v: h.Res.V, ok: h.Res.Ok, panic: h.Res.Panic}
		perKey[k] = append(perKey[k], porcupine.Operation{ClientId: h.Task + 1, Input: in, Output: res, Call: c2(h.Call), Return: c2(h.Ret) + 1})
		if cfg.Expiry == "accessing" && (op.Kind == "computeifabsent" || op.Kind == "computeifpresent") {
			t := in
			t.kind = "touch"
			perKey[k] = append(perKey[k], porcupine.Operation{ClientId: 1000 + len(perKey[k]), Input: t, Output: linOut{}, Call: c2(h.Call), Return: c2(h.Ret) + 1})
		}
	}
	for _, ev := range cr.r.Events {
		if ev.Atomic && (ev.Cause == otter.CauseOverflow || ev.Cause == otter.CauseExpiration) {
			end := ev.End
			if end < ev.Seq {
				end = ev.Seq
			}
			perKey[ev.K] = append(perKey[ev.K], porcupine.Operation{ClientId: 0, Input: expIn{kind: "evict", v: ev.V, nowLo: ev.Now, nowHi: ev.Now, cause: ev.Cause, async: cr.opts.AsyncClock}, Output: linOut{}, Call: c2(ev.Seq), Return: c2(end) + 1})
		}
	}
	keys := make([]int, 0, len(perKey))
	for k := range perKey {
		keys = append(keys, k)
	}
	sort.Ints(keys)
	for _, k := range keys {
		ops := perKey[k]
		if skip[k] || len(ops) < 2 || len(ops) > 48 {
			continue
		}
		res := porcupine.CheckOperationsTimeout(expModel, ops, 2*time.Second)
		out.LinChecked++
		switch res {
		case porcupine.Unknown:
			out.LinUnknown++
		case porcupine.Illegal:
			sort.Slice(ops, func(i, j int) bool { return ops[i].Call < ops[j].Call })
			s := ""
			for _, o := range ops {
				in := o.Input.(expIn)
				s += fmt.Sprintf("\n    c%d [%d,%d] now=[%d,%d] %s v=%d comp=%s calls=%d saw=%d/%v dur=%d cause=%d -> %+v", o.ClientId-1, o.Call/2, o.Return/2, in.nowLo, in.nowHi, in.kind, in.v, in.comp, in.calls, in.saw, in.sawFound, in.dur, in.cause, o.Output)
			}
			props := P("C03")
			if cr.opts.AsyncClock {
				props = P("C02") // the clock moved during operations: outside C03's quantifier
			}
			cr.fail(props, "lin.expiry-illegal", k, "history of key %d is not explainable by a map with deadlines (policy %s, duration %d):%s", k, cfg.Expiry, cfg.ExpD, s)
		}
	}
	// how often an operation met an expired-but-unswept entry is reported through the probes
	for _, h := range cr.hist {
		if h.Done && h.Op.Kind == "get" && !h.Res.Ok {
			cr.probe["reads-that-missed"]++
		}
	}
}
