package zzverif

func hasSuffix(s, suf string) bool { return len(s) >= len(suf) && s[len(s)-len(suf):] == suf }
func hasPrefix(s, pre string) bool { return len(s) >= len(pre) && s[:len(pre)] == pre }

func probeSum(o *SeqOutcome, pre, suf string) (n int, kinds int) {
	for k, v := range o.Probes {
		if v > 0 && hasPrefix(k, pre) && hasSuffix(k, suf) {
			n += v
			kinds++
		}
	}
	return
}

func w(base map[string]int, over map[string]int) map[string]int {
	out := map[string]int{}
	for k, v := range base {
		out[k] = v
	}
	for k, v := range over {
		out[k] = v
	}
	return out
}

func init() {
	Props["C01"] = &PropSpec{ID: "C01", Engines: []Engine{&seqEngine{
		profile: Profile{Prop: "C01", Executor: []string{"sync"}},
		nontrivial: func(o *SeqOutcome) bool {
			a, _ := probeSum(o, "op:", "@absent")
			l, _ := probeSum(o, "op:", "@live")
			g, _ := probeSum(o, "op:", "@expired-unswept")
			return a > 0 && l > 0 && (g > 0 || o.Probes["auto-overflow"] > 0 || o.Probes["auto-expiration"] > 0)
		},
	}}}
	Props["C03"] = &PropSpec{ID: "C03", Engines: []Engine{
		&seqEngine{
			profile: Profile{Prop: "C03", Executor: []string{"sync"}, ForceExp: true,
				OpW: w(defaultOpW, map[string]int{"advance": 25, "all": 2, "keys": 2, "values": 2, "hottest": 2, "coldest": 2, "setexpires": 6, "setrefreshable": 4, "cleanup": 1})},
			nontrivial: func(o *SeqOutcome) bool {
				_, kinds := probeSum(o, "op:", "@expired-unswept")
				return kinds >= 3
			},
		},
		&seqEngine{
			profile:  Profile{Prop: "C03", Executor: []string{"sync"}, ForceExp: true, MinOps: 5, MaxOps: 60, OpW: w(defaultOpW, map[string]int{"advance": 20, "cleanup": 1})},
			saveLoad: true,
			nontrivial: func(o *SeqOutcome) bool {
				return o.Probes["saveload"] > 0
			},
		},
	}}
	Props["C07"] = &PropSpec{ID: "C07", Engines: []Engine{&seqEngine{
		profile: Profile{Prop: "C07", Executor: []string{"sync"},
			OpW: w(defaultOpW, map[string]int{"set": 25, "setmax": 4, "compute": 8, "cleanup": 6, "advance": 10})},
		nontrivial: func(o *SeqOutcome) bool {
			return o.Probes["auto-overflow"] > 0 || o.Probes["auto-expiration"] > 0
		},
	}}}
	Props["C10"] = &PropSpec{ID: "C10", Engines: []Engine{&seqEngine{
		profile: Profile{Prop: "C10", Executor: []string{"sync"},
			OpW: w(defaultOpW, map[string]int{"load": 25, "bulkget": 25, "set": 8, "invalidate": 6, "advance": 8})},
		nontrivial: func(o *SeqOutcome) bool {
			n, kinds := probeSum(o, "load:", "")
			return n > 0 && kinds >= 2 && (o.Probes["bulk-omit"] > 0 || o.Probes["bulk-extra"] > 0 || o.Probes["bulk-duplicate-key"] > 0)
		},
	}}}
	Props["C11"] = &PropSpec{ID: "C11", Engines: []Engine{&seqEngine{
		profile: Profile{Prop: "C11", Executor: []string{"sync"}, ForceRef: true,
			OpW: w(defaultOpW, map[string]int{"load": 25, "bulkget": 12, "refresh": 10, "bulkrefresh": 8, "advance": 20, "set": 10, "setrefreshable": 5})},
		nontrivial: func(o *SeqOutcome) bool {
			n, _ := probeSum(o, "reload:", "")
			r, _ := probeSum(o, "refresh-", "")
			return n > 0 || (r > 0 && o.Probes["bulk-reload"] > 0)
		},
	}}}
	Props["C12"] = &PropSpec{ID: "C12", Engines: []Engine{
		&seqEngine{
			profile: Profile{Prop: "C12", Executor: []string{"sync"}, ForceExp: true, ExtremeClk: true,
				OpW: w(defaultOpW, map[string]int{"setexpires": 8, "setrefreshable": 6, "advance": 18, "getentry": 6, "getquiet": 6})},
			nontrivial: func(o *SeqOutcome) bool {
				l, _ := probeSum(o, "op:", "@live")
				return l >= 5
			},
		},
		&seqEngine{
			profile: Profile{Prop: "C12", Executor: []string{"sync"}, ForceExp: true, ForceRef: true,
				OpW: w(defaultOpW, map[string]int{"setexpires": 8, "setrefreshable": 8, "advance": 18, "load": 10})},
			nontrivial: func(o *SeqOutcome) bool {
				l, _ := probeSum(o, "op:", "@live")
				return l >= 5
			},
		},
	}}
	Props["C13"] = &PropSpec{ID: "C13", Engines: []Engine{&seqEngine{
		profile: Profile{Prop: "C13", Executor: []string{"sync"}, ForceExp: true, BigTTL: true,
			OpW: map[string]int{"set": 30, "setifabsent": 5, "get": 8, "compute": 4, "invalidate": 5, "setexpires": 6, "cleanup": 14, "advance": 22, "esize": 4,
				"getentry": 1, "getquiet": 1, "computeifabsent": 1, "computeifpresent": 1, "invalidateall": 1, "setrefreshable": 0, "load": 2, "bulkget": 1, "refresh": 0, "bulkrefresh": 0,
				"all": 1, "keys": 0, "values": 0, "hottest": 0, "coldest": 0, "setmax": 0, "getmax": 0, "wsize": 0, "stats": 0}},
		nontrivial: func(o *SeqOutcome) bool {
			return o.Probes["sweep-checks"] > 0 && o.Probes["auto-expiration"] > 0
		},
	}}}
	Props["C19"] = &PropSpec{ID: "C19", Engines: []Engine{
		&seqEngine{
			profile:  Profile{Prop: "C19", Executor: []string{"sync"}, MinOps: 3, MaxOps: 80, OpW: w(defaultOpW, map[string]int{"set": 30, "advance": 8})},
			saveLoad: true,
			nontrivial: func(o *SeqOutcome) bool {
				return o.Probes["saveload"] > 0
			},
		},
		&seqEngine{
			profile:  Profile{Prop: "C19", Executor: []string{"sync"}, ForceExp: true, ExtremeClk: true, MinOps: 3, MaxOps: 40, OpW: w(defaultOpW, map[string]int{"set": 30, "setexpires": 10, "advance": 8})},
			saveLoad: true,
			nontrivial: func(o *SeqOutcome) bool {
				return o.Probes["saveload"] > 0
			},
		},
	}}
	Props["C20"] = &PropSpec{ID: "C20", Engines: []Engine{&seqEngine{
		profile: Profile{Prop: "C20", Executor: []string{"sync"}, Stats: true, OpW: w(defaultOpW, map[string]int{"stats": 8, "load": 12, "bulkget": 8})},
		nontrivial: func(o *SeqOutcome) bool {
			n, _ := probeSum(o, "load:", "")
			l, _ := probeSum(o, "op:get", "@live")
			a, _ := probeSum(o, "op:get", "@absent")
			return n > 0 && l > 0 && a > 0
		},
	}}}
}
