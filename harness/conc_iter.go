package zzverif

import (
	"math"
	"sort"

	"github.com/maypok86/otter/v2"
)

// Weakly consistent iteration under concurrency (C15's cache-level clause, C03's "iterates over
// it"). For every All / Keys / Values / Hottest / Coldest call I of a client task, with interval
// [I.Call, I.Ret] in event-sequence numbers:
//
//	iter.duplicate        no key (value for Values) is yielded twice by one traversal
//	iter.stale-value      a yielded value whose removal the atomic handler had reported, and whose
//	                      table computation had completed, before I was invoked (values are unique per
//	                      write, so the value cannot have come back)
//	iter.expired-yielded  a yielded entry whose deadline had certainly been reached when I was invoked
//	                      (upper bound of the deadline from the configured built-in policy and the
//	                      clock values of every operation that could have moved it)
//	iter.unknown-key      a yielded key that was certainly absent during the whole of I: a removal of
//	                      it had completed before I and nothing that can install it was invoked since
//	iter.missed-key       All / Keys / Values ran to the end and did not yield a key that was certainly
//	                      present during the whole of I: a write of it had returned before I and
//	                      nothing that can remove it (invalidation, eviction / expiration event,
//	                      not-found reload, deadline) falls between that write and the end of I
//
// "Certainly" is decided conservatively from the recorded intervals (anything that overlaps counts as
// possibly before and possibly after), so each rule is sound for any linearization. Hottest / Coldest
// traverse the eviction policy, not the key index: only duplicate and expired-yielded apply to them.
func (cr *concRun) checkConcIter() {
	cfg := &cr.cc.Cfg
	var iters []*HistOp
	for _, h := range cr.hist {
		switch h.Op.Kind {
		case "all", "keys", "values", "hottest", "coldest":
			if h.Done && h.Task >= 0 {
				iters = append(iters, h)
			}
		}
	}
	if len(iters) == 0 {
		return
	}
	const inf = ^uint64(0) >> 2
	type act struct {
		call, ret uint64
		now       int64 // clock when it returned (upper bound of any clock sample it took)
		nowCall   int64
		h         *HistOp
		wrote     bool // sureInstall: the operation itself installed a value (its deadline starts at its own clock sample)
	}
	// per key: activities that may install, may remove, may extend the deadline; certain installs;
	// certain removals
	mayInstall := map[int][]act{}
	mayRemove := map[int][]act{}
	mayTouch := map[int][]act{}
	sureInstall := map[int][]act{}
	sureRemove := map[int][]act{}
	setExp := map[int]bool{}
	// end of everything an operation started: its own return, or the end of the installation of
	// the loader calls made on its behalf (background reloads finish after the operation returned)
	endOf := func(h *HistOp) uint64 {
		end := inf
		if h.Done {
			end = h.Ret
		}
		for _, l := range cr.r.Loads {
			if l.Op == h.Op {
				if e := cr.loadInstallEnd(l); e > end {
					end = e
				}
			}
		}
		return end
	}
	allKeys := map[int]bool{}
	for _, h := range cr.hist {
		for _, k := range keysOf(h.Op) {
			allKeys[k] = true
		}
		if h.Op.Load != nil {
			for _, k := range h.Op.Load.Extra {
				allKeys[k] = true
			}
		}
	}
	for _, ev := range cr.r.Events {
		allKeys[ev.K] = true
	}
	for _, h := range cr.hist {
		op := h.Op
		ret := inf
		now := int64(math.MaxInt64)
		if h.Done {
			ret, now = h.Ret, h.NowRet
		}
		a := act{call: h.Call, ret: ret, now: now, nowCall: h.Now, h: h}
		full := act{call: h.Call, ret: endOf(h), now: now, nowCall: h.Now, h: h}
		if full.ret != ret {
			full.now = int64(math.MaxInt64) // background work: clock unknown
		}
		switch op.Kind {
		case "set":
			mayInstall[op.K] = append(mayInstall[op.K], a)
			mayTouch[op.K] = append(mayTouch[op.K], a)
			if h.Done && !h.Res.Panic {
				a.wrote = true
				sureInstall[op.K] = append(sureInstall[op.K], a)
			}
		case "setifabsent":
			mayInstall[op.K] = append(mayInstall[op.K], a)
			mayTouch[op.K] = append(mayTouch[op.K], a)
			if h.Done && !h.Res.Panic {
				a.wrote = h.Res.Ok
				sureInstall[op.K] = append(sureInstall[op.K], a)
			}
		case "compute", "computeifabsent", "computeifpresent":
			mayTouch[op.K] = append(mayTouch[op.K], a)
			switch {
			case op.Kind == "computeifabsent":
				if op.Comp != "cancel" && op.Comp != "panic" {
					mayInstall[op.K] = append(mayInstall[op.K], a)
				}
				if h.Done && !h.Res.Panic && h.Res.Ok {
					a.wrote = h.Res.CompCalls >= 1
					sureInstall[op.K] = append(sureInstall[op.K], a) // found present, or inserted
				}
				// a cancelled ComputeIfAbsent over an expired entry removes it: harmless to count
				mayRemove[op.K] = append(mayRemove[op.K], a)
			case op.Comp == "write":
				mayInstall[op.K] = append(mayInstall[op.K], a)
				if h.Done && !h.Res.Panic && h.Res.CompCalls >= 1 {
					a.wrote = true
					sureInstall[op.K] = append(sureInstall[op.K], a)
				}
			case op.Comp == "inval":
				mayRemove[op.K] = append(mayRemove[op.K], a)
				if h.Done && !h.Res.Panic {
					sureRemove[op.K] = append(sureRemove[op.K], a) // removed, or was absent
				}
			default:
				mayRemove[op.K] = append(mayRemove[op.K], a) // cancel over an expired entry
			}
		case "invalidate":
			mayRemove[op.K] = append(mayRemove[op.K], a)
			if h.Done {
				sureRemove[op.K] = append(sureRemove[op.K], a)
			}
		case "invalidateall":
			for k := range allKeys {
				mayRemove[k] = append(mayRemove[k], a)
			}
		case "get", "getentry":
			mayTouch[op.K] = append(mayTouch[op.K], a)
		case "setexpires":
			setExp[op.K] = true
			mayTouch[op.K] = append(mayTouch[op.K], a)
		case "load", "refresh":
			mayInstall[op.K] = append(mayInstall[op.K], full)
			mayRemove[op.K] = append(mayRemove[op.K], full) // a not-found reload removes
			mayTouch[op.K] = append(mayTouch[op.K], full)
		case "bulkget", "bulkrefresh":
			ks := append([]int(nil), op.Ks...)
			if op.Load != nil {
				ks = append(ks, op.Load.Extra...)
			}
			for _, k := range ks {
				mayInstall[k] = append(mayInstall[k], full)
				mayRemove[k] = append(mayRemove[k], full)
				mayTouch[k] = append(mayTouch[k], full)
			}
		}
	}
	// automatic and explicit removals reported by the atomic handler
	removedAt := map[int]uint64{} // value -> end of the table computation that removed it
	removedCause := map[int]otter.DeletionCause{}
	for _, ev := range cr.r.Events {
		if !ev.Atomic {
			continue
		}
		end := ev.End
		if end < ev.Seq {
			end = inf // the computation had not completed when the run ended
		}
		if old, ok := removedAt[ev.V]; !ok || end < old {
			removedAt[ev.V] = end
			removedCause[ev.V] = ev.Cause
		}
		if ev.Cause != otter.CauseReplacement {
			begin := ev.Begin
			if begin == 0 || begin > ev.Seq {
				begin = ev.Seq
			}
			a := act{call: begin, ret: end}
			mayRemove[ev.K] = append(mayRemove[ev.K], a)
			if end != inf {
				sureRemove[ev.K] = append(sureRemove[ev.K], a)
			}
		}
	}
	ins := cr.installs()
	builtin := cfg.Expiry == "creating" || cfg.Expiry == "writing" || cfg.Expiry == "accessing"
	keys := make([]int, 0, len(allKeys))
	for k := range allKeys {
		keys = append(keys, k)
	}
	sort.Ints(keys)
	for _, I := range iters {
		kind := I.Op.Kind
		index := kind == "all" || kind == "keys" || kind == "values"
		cr.probe["conc-iter:"+kind]++
		ranToEnd := I.Op.D == 0 || int64(len(I.Res.Entries)) < I.Op.D
		yielded := map[int]bool{}
		seenK := map[int]int{}
		seenV := map[int]int{}
		for ei, e := range I.Res.Entries {
			k, v, hasK, hasV := e.K, e.V, kind != "values", kind != "keys"
			if !hasK && hasV {
				if info := ins[v]; info != nil {
					k, hasK = info.k, true
				}
			}
			if kind != "values" {
				seenK[e.K]++
				if seenK[e.K] == 2 {
					cr.fail(P("C15", "C05"), "iter.duplicate", e.K, "%s (task %d, invoked at %d) yielded key %d twice", kind, I.Task, I.Call, e.K)
				}
			} else {
				seenV[v]++
				if seenV[v] == 2 {
					cr.fail(P("C15", "C05"), "iter.duplicate", k, "values (task %d, invoked at %d) yielded value %d twice", I.Task, I.Call, v)
				}
			}
			if hasK {
				yielded[k] = true
			}
			if hasV && index {
				if end, ok := removedAt[v]; ok && end < I.Call {
					props := P("C15")
					if removedCause[v] == otter.CauseExpiration {
						props = P("C15", "C03")
					}
					cr.fail(props, "iter.stale-value", k, "%s (task %d, invoked at %d) yielded key %d value %d, whose removal (%s) had been reported and completed at %d, before the traversal began", kind, I.Task, I.Call, k, v, removedCause[v], end)
				}
			}
			// expired before the traversal looked at it: the traversal examines element i after the loop
			// body of element i-1 returned (for the first element: after it was invoked), so the clock
			// at that moment is a lower bound of the clock it checked the deadline with. Upper bound
			// of the deadline: every operation on the key that could have set or extended it and was
			// invoked before this element was yielded must have returned by then; its clock at return
			// plus the longest lifetime any calculator gives this (key, value).
			lbNow, lbTick, yieldTick := I.Now, I.Call, I.Ret
			if ei > 0 && ei-1 < len(I.Res.IterNow) {
				lbNow, lbTick = I.Res.IterNow[ei-1], I.Res.IterTick[ei-1]
			}
			if ei < len(I.Res.IterTick) {
				yieldTick = I.Res.IterTick[ei]
			}
			if cfg.withExpiry() && hasK && !setExp[k] {
				life := int64(0)
				switch {
				case builtin:
					life = cfg.ExpD
				case cfg.Expiry == "custom" && hasV:
					c, u, rd := cfg.expCreate(k, v), cfg.expUpdate(k, v), cfg.expRead(k, v)
					if c > 0 && u > 0 { // a zero means "keep the current deadline": no bound from this value alone
						life = c
						if u > life {
							life = u
						}
						if rd > life {
							life = rd
						}
					}
				}
				if life > 0 {
					ub := int64(-1 << 62)
					known := true
					for _, a := range mayTouch[k] {
						if a.call < yieldTick { // could have set or extended the deadline before it was yielded
							if a.ret > lbTick {
								known = false // possibly still running when the traversal looked: no bound
								break
							}
							if a.now > ub {
								ub = a.now
							}
						}
					}
					if known && ub > -1<<62 {
						cr.probe["conc-iter-deadline-bound-known"]++
						if satAdd(ub, life) <= lbNow {
							cr.fail(P("C03", "C15"), "iter.expired-yielded", k, "%s (task %d, invoked at %d) yielded key %d (element %d) although the clock had reached %d before the traversal looked at it, every operation that could have set or extended its deadline had returned by clock %d, and no calculator gives it a lifetime above %d", kind, I.Task, I.Call, k, ei, lbNow, ub, life)
						}
					}
				}
			}
			if (kind == "hottest" || kind == "coldest") && cfg.withExpiry() && e.Exp != 0 && e.Exp <= I.Now {
				cr.fail(P("C03"), "iter.expired-yielded", e.K, "%s (task %d, invoked at clock %d) yielded key %d with deadline %d", kind, I.Task, I.Now, e.K, e.Exp)
			}
			// certainly absent for the whole traversal
			if hasK && index {
				absent := false
				for _, R := range sureRemove[k] {
					if R.ret >= I.Call {
						continue
					}
					ok := true
					for _, A := range mayInstall[k] {
						if A.ret >= R.call && A.call <= I.Ret {
							ok = false
							break
						}
					}
					if ok {
						absent = true
						break
					}
				}
				if len(mayInstall[k]) == 0 {
					absent = true
				} else if !absent {
					never := true
					for _, A := range mayInstall[k] {
						if A.call <= I.Ret {
							never = false
						}
					}
					absent = never
				}
				if absent {
					cr.fail(P("C15"), "iter.unknown-key", k, "%s (task %d, [%d,%d]) yielded key %d, which was removed before the traversal and not written again until it ended", kind, I.Task, I.Call, I.Ret, k)
				}
			}
		}
		if !index || !ranToEnd || cfg.withRefresh() {
			continue
		}
		if cfg.withExpiry() && cfg.Expiry != "writing" && cfg.Expiry != "accessing" {
			continue // creation-only and custom lifetimes: no lower bound of the deadline from one write
		}
		for _, k := range keys {
			if setExp[k] {
				continue
			}
			for _, W := range sureInstall[k] {
				if W.ret >= I.Call {
					continue
				}
				if cfg.withExpiry() && (!W.wrote || cfg.ExpD <= 0 || satAdd(W.nowCall, cfg.ExpD) <= I.NowRet) {
					continue // may expire before the traversal ends
				}
				ok := true
				for _, R := range mayRemove[k] {
					if R.ret >= W.call && R.call <= I.Ret {
						ok = false
						break
					}
				}
				if ok && cfg.withExpiry() {
					// any write of the key that overlaps or follows W may be the one whose value is
					// current, and under expire-after-access any read may be the one that set the
					// deadline last; each computed it from a clock sample as old as its invocation
					// (a delayed reader can move a deadline backwards - section 11)
					for _, A := range mayTouch[k] {
						if A.ret >= W.call && A.call <= I.Ret && satAdd(A.nowCall, cfg.ExpD) <= I.NowRet {
							ok = false
							break
						}
					}
				}
				if ok {
					cr.probe["conc-iter-surely-present-checked"]++
					if !yielded[k] {
						cr.fail(P("C15"), "iter.missed-key", k, "%s (task %d, [%d,%d]) ran to the end without yielding key %d: %s of it (task %d) had returned at %d and nothing that can remove the key overlaps or follows that write until the traversal ended", kind, I.Task, I.Call, I.Ret, k, W.h.Op.Kind, W.h.Task, W.ret)
					}
					break
				}
			}
		}
		// count how often the rule had something to say
		for _, k := range keys {
			if yielded[k] {
				cr.probe["conc-iter-keys-yielded"]++
			}
		}
	}
}

// checkRejectedLoads (C10, C11 for reloads): a bulk loader that returns an error next to a (partial)
// map has failed; "a failed load ... leaves the cache unchanged", so none of the values in that map
// may ever be cached, returned by a read, yielded by an iterator or reported by a deletion event.
func (cr *concRun) checkRejectedLoads() {
	rej := map[int]*loadRec{}
	for _, l := range cr.r.Loads {
		for _, v := range l.Rejected {
			rej[v] = l
		}
	}
	if len(rej) == 0 {
		return
	}
	cr.probe["failed-bulk-load-returned-a-map"]++
	bad := func(v int, where string) {
		l := rej[v]
		if l == nil {
			return
		}
		props := P("C10")
		if l.Reload {
			props = P("C10", "C11")
		}
		cr.fail(props, "load.failed-load-cached", -1, "value %d was returned by a bulk loader call that failed (keys %v, reload=%v), yet %s", v, l.Keys, l.Reload, where)
	}
	for _, e := range cr.finalAll {
		bad(e.V, "the cache finally holds it")
	}
	for _, e := range cr.rawNoCleanup {
		bad(e.Value, "the table holds it at quiescence")
	}
	for _, ev := range cr.r.Events {
		bad(ev.V, "a deletion event reports it")
	}
	for _, h := range cr.hist {
		if !h.Done {
			continue
		}
		switch h.Op.Kind {
		case "get", "getentry", "getquiet", "set", "setifabsent", "invalidate", "compute", "computeifabsent", "computeifpresent":
			if h.Res.Ok || h.Op.Kind == "set" || h.Op.Kind == "setifabsent" {
				bad(h.Res.V, h.Op.Kind+" returned it")
			}
			if h.Res.CompFound {
				bad(h.Res.CompSaw, "a compute function was given it")
			}
		case "load":
			if h.Res.Err == "" {
				bad(h.Res.V, "Get returned it")
			}
		case "bulkget":
			for _, k := range sortedKeys(h.Res.Map) {
				bad(h.Res.Map[k], "BulkGet returned it")
			}
		case "all", "values", "hottest", "coldest":
			for _, e := range h.Res.Entries {
				bad(e.V, h.Op.Kind+" yielded it")
			}
		}
	}
}
