package zzverif

import (
	"fmt"
	"math"
)

// Final deadlines under concurrency (C12: "after every create, update or read, an entry's expiration
// time equals the time of that operation plus the duration the configured calculator returned for
// it ... and likewise for the refresh time").
//
// At quiescence every node physically in the table carries an expiration and a refresh deadline.
// Whatever the interleaving was, such a deadline must be *explainable*: it equals the clock sample of
// some operation that could have set it plus the duration the calculator gives that operation for
// this (key, value). The clock sample of an operation lies between the clock at its invocation and
// the clock at its return (for background work: the clock at the end of the run; the clock is
// monotone), so each candidate contributes an interval [lo+d, hi+d], and a point when the clock did
// not move during the operation - which is the common case. Candidates, per policy:
//
//	installation of the value itself    create / update duration (reload duration for the refresh time)
//	any operation on the key that is not entirely before that installation
//	                                    read duration (expire-after-access, custom ExpireAfterRead);
//	                                    SetExpiresAfter / SetRefreshableAfter with their own duration
//	failed reloads of the key           RefreshAfterReloadFailure
//	creation-only policies              the installation of any earlier value of the key (updates keep
//	                                    the deadline)
//
// A calculator result <= 0 means "keep the current deadline"; then the deadline is inherited from an
// older value and this rule says nothing about the entry. Known loosenesses of otter (a delayed reader
// moving the deadline backwards from an older sample, a SetExpiresAfter lost to a racing write) stay
// inside the candidate set by construction. What falls outside is a deadline nobody computed: one
// taken from a stale clock sample of another operation, from another key's or value's duration, a
// torn or half-applied update, a lost saturation.
func (cr *concRun) checkFinalDeadlines() {
	cfg := &cr.cc.Cfg
	if !cfg.withExpiry() && !cfg.withRefresh() {
		return
	}
	finalNow := cr.w.Now
	type span struct {
		lo, hi int64
		call   uint64
		ret    uint64
	}
	const inf = ^uint64(0) >> 2
	add := func(t, d int64) int64 {
		s, _ := addDeadline(t, d)
		return s
	}
	inside := func(x int64, s span, d int64) bool { return d > 0 && x >= add(s.lo, d) && x <= add(s.hi, d) }
	installOf := map[int]span{}      // value -> sample bounds of its installation
	installsOn := map[int][]span{}   // key -> installations of any value
	opsOn := map[int][]span{}        // key -> every operation touching it
	setExp := map[int][]*HistOp{}    // key -> SetExpiresAfter calls
	setRef := map[int][]*HistOp{}    // key -> SetRefreshableAfter calls
	failedReload := map[int][]span{} // key -> reloads that failed
	for _, h := range cr.hist {
		op := h.Op
		s := span{lo: h.Now, hi: finalNow, call: h.Call, ret: inf}
		if h.Done {
			s.hi, s.ret = h.NowRet, h.Ret
		}
		bg := false // work done on behalf of the operation after it returned (background reloads)
		for _, l := range cr.r.Loads {
			if l.Op == op && l.Reload && (op.Kind == "load" || op.Kind == "bulkget") {
				bg = true
			}
		}
		wide := s
		if bg || op.Kind == "refresh" || op.Kind == "bulkrefresh" {
			wide.hi, wide.ret = finalNow, inf
		}
		for _, k := range keysOf(op) {
			opsOn[k] = append(opsOn[k], wide)
		}
		switch op.Kind {
		case "set", "setifabsent", "compute", "computeifpresent", "computeifabsent":
			if _, dup := installOf[op.V]; !dup {
				installOf[op.V] = s
				installsOn[op.K] = append(installsOn[op.K], s)
			}
		case "setexpires":
			setExp[op.K] = append(setExp[op.K], h)
		case "setrefreshable":
			setRef[op.K] = append(setRef[op.K], h)
		}
	}
	for _, l := range cr.r.Loads {
		s := span{lo: l.NowEnter, hi: finalNow, call: l.Enter, ret: inf}
		for _, h := range cr.hist {
			if h.Op == l.Op && h.Done && !l.Reload && h.Op.Kind != "refresh" && h.Op.Kind != "bulkrefresh" {
				s.hi, s.ret = h.NowRet, h.Ret // a foreground load installs before its operation returns
			}
		}
		for k, v := range l.Ret {
			if _, dup := installOf[v]; !dup {
				installOf[v] = s
				installsOn[k] = append(installsOn[k], s)
			}
		}
		// a failing load made for a refresh (a reload, or the plain load an explicit Refresh makes for a
		// key it found absent) applies RefreshAfterReloadFailure to whatever entry the key holds then
		if (l.Reload || (l.Op != nil && (l.Op.Kind == "refresh" || l.Op.Kind == "bulkrefresh"))) && (l.Outcome == "err" || l.Outcome == "panic" || (l.Bulk && l.Outcome == "notfound")) { // a bulk loader's ErrNotFound is a failure of the whole call
			for _, k := range l.Keys {
				failedReload[k] = append(failedReload[k], s)
			}
		}
		if l.Plan.Extra != nil {
			for _, k := range l.Plan.Extra {
				opsOn[k] = append(opsOn[k], s)
			}
		}
	}
	for _, e := range cr.rawNoCleanup {
		k, v := e.Key, e.Value
		ins, ok := installOf[v]
		if !ok {
			continue // event.unknown-value is another rule's business
		}
		later := func(s span) bool { return s.ret >= ins.call } // not entirely before the installation
		if cfg.withExpiry() && e.ExpiresAtNano <= finalNow {
			// expired but not swept: absent for every caller, so nothing it carries is observable (a
			// failed load over such a node, for one, gives it RefreshAfterCreate's refresh time)
			cr.probe["final-deadlines-skipped-expired-unswept"]++
			continue
		}
		if cfg.withExpiry() {
			x := e.ExpiresAtNano
			c, u, rd := cfg.expCreate(k, v), cfg.expUpdate(k, v), cfg.expRead(k, v)
			explained, judge := false, true
			switch {
			case cfg.Expiry == "creating":
				for _, s := range installsOn[k] {
					if inside(x, s, c) {
						explained = true
					}
				}
			case c <= 0 || u <= 0:
				judge = false
			default:
				explained = inside(x, ins, c) || inside(x, ins, u)
				if rd > 0 {
					for _, s := range opsOn[k] {
						if later(s) && inside(x, s, rd) {
							explained = true
						}
					}
				}
			}
			for _, h := range setExp[k] {
				s := span{lo: h.Now, hi: finalNow}
				if h.Done {
					s.hi = h.NowRet
				}
				if h.Op.D <= 0 {
					continue
				}
				if cfg.Expiry == "creating" || !h.Done || h.Ret >= ins.call {
					if inside(x, s, h.Op.D) {
						explained = true
					}
				}
			}
			if judge {
				cr.probe["final-expiry-deadlines-judged"]++
				if !explained {
					cr.fail(P("C12"), "deadline.unexplained-expiry", k, "key %d value %d ends with expiration time %d, which is not (clock sample + calculator duration) of any operation that could have set it: installed with clock in [%d,%d], create/update/read durations %d/%d/%d, %d other operations on the key, %d SetExpiresAfter calls", k, v, x, ins.lo, ins.hi, c, u, rd, len(opsOn[k]), len(setExp[k]))
				}
			}
		}
		if cfg.withRefresh() {
			x := e.RefreshableAtNano
			c, u, rl, rf := cfg.refCreate(k, v), cfg.refUpdate(k, v), cfg.refReload(k, v), cfg.refFail(k, v)
			explained, judge := false, true
			switch {
			case cfg.Refresh == "creating":
				for _, s := range installsOn[k] {
					if inside(x, s, c) {
						explained = true
					}
				}
			case c <= 0 || u <= 0 || rl <= 0:
				judge = false
			default:
				explained = inside(x, ins, c) || inside(x, ins, u) || inside(x, ins, rl)
			}
			if rf > 0 {
				for _, s := range failedReload[k] {
					if (cfg.Refresh == "creating" || later(s)) && inside(x, s, rf) {
						explained = true
					}
				}
			}
			for _, h := range setRef[k] {
				s := span{lo: h.Now, hi: finalNow}
				if h.Done {
					s.hi = h.NowRet
				}
				if h.Op.D <= 0 {
					continue
				}
				if cfg.Refresh == "creating" || !h.Done || h.Ret >= ins.call {
					if inside(x, s, h.Op.D) {
						explained = true
					}
				}
			}
			if judge && x != math.MaxInt64 || judge && c > 0 {
				cr.probe["final-refresh-deadlines-judged"]++
				if !explained {
					loads := ""
					for _, l := range cr.r.Loads {
						for _, lk := range l.Keys {
							if lk == k && l.Op != nil {
								loads += fmt.Sprintf(" [%s reload=%v bulk=%v %s now=%d]", l.Op.Kind, l.Reload, l.Bulk, l.Outcome, l.NowEnter)
							}
						}
					}
					cr.fail(P("C12"), "deadline.unexplained-refresh", k, "key %d value %d ends with refresh time %d, which is not (clock sample + calculator duration) of any operation that could have set it: installed with clock in [%d,%d], create/update/reload/failure durations %d/%d/%d/%d, %d failed reloads, %d SetRefreshableAfter calls; loader calls for the key:%s", k, v, x, ins.lo, ins.hi, c, u, rl, rf, len(failedReload[k]), len(setRef[k]), loads)
				}
			}
		}
	}
}
