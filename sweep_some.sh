#!/bin/bash
# sweep_some.sh <budget_s> <workers> <jobs> <props (comma separated)> <seed...> : like sweep.sh for a subset of the checks
B=$1; W=$2; J=$3; PROPS=$4; shift 4
HERE="$(cd "$(dirname "$0")" && pwd)"
export VERIF_EVIDENCE_DIR=/var/tmp/sweep-evidence-some
run() { p=$1; s=$2; out=$("$HERE/check" $p ${TIER:+--tier $TIER} --seed $s --budget $B --workers $W 2>&1); rc=$?; echo "$p seed=$s exit=$rc $(echo "$out" | grep -o 'runs=[0-9]*' | head -1) $(echo "$out" | grep -E '^  rule=|^VIOLATION' | head -4 | tr '\n' ' ')"; [ $rc = 1 ] && mkdir -p /var/tmp/sweep-replays && cp "$HERE"/replays/$p-*.json /var/tmp/sweep-replays/ 2>/dev/null; true; }
export -f run; export HERE B W TIER
for s in "$@"; do for p in ${PROPS//,/ }; do echo "$p $s"; done; done | xargs -P $J -n 2 bash -c 'run $0 $1'
echo SWEEP-DONE
