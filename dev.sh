#!/bin/bash
# dev.sh <prop> <seed> <budget> : build into /var/tmp/vs2 and run one worker, print a summary (development helper)
P=$1; S=${2:-1}; B=${3:-5}
/verif/build.sh /var/tmp/vs2 2>&1 | tail -3 || exit 2
mkdir -p /var/tmp/vsreplays /var/tmp/vs2/out; find /var/tmp/vsreplays -name '*.json' -delete
/var/tmp/vs2/simworker -prop $P -seed $S -budget $B -out /var/tmp/vs2/out -replays /var/tmp/vsreplays -known /verif/known_findings.json ${SPEC:+-spec $SPEC} > /var/tmp/vs2/out/log.txt 2>&1 || { tail -30 /var/tmp/vs2/out/log.txt; }
python3 - <<PY
import json
d=json.load(open('/var/tmp/vs2/out/w0.json'))
print({k:d[k] for k in ['runs','nontrivial','ops_executed','sim_steps','switches','wall_s','foreign_violations','lin_checked','lin_unknown']})
print('probes',dict(sorted(d['probes'].items())[:60]))
print('faults',d['faults'])
for v in (d['violations'] or []): print('VIOL',v['rule'], v['detail'][:400], v['replay'])
for v in (d['known'] or [])[:3]: print('KNOWN',v['rule'], v['detail'][:200])
PY
