package selftest

import (
	"testing"

	"verifsim/satomic"
	"verifsim/simrt"
	"verifsim/ssync"
)

func runOnce(seed uint64, replay []simrt.Deviation, replayMode bool) (*simrt.World, int, uint64) {
	var mu ssync.Mutex
	var ctr satomic.Uint64
	total := 0
	ch := make(chan int)
	bch := make(chan int, 2)
	rng := simrt.NewRng(seed, 99)
	w := simrt.Run(simrt.Config{Seed: seed, Strat: simrt.DrawStrategy(&rng, 300), Replay: replay, ReplayMode: replayMode}, func(w *simrt.World) {
		var ts []*simrt.Task
		for i := 0; i < 3; i++ {
			i := i
			ts = append(ts, w.Spawn("c", func() {
				for j := 0; j < 10; j++ {
					mu.Lock()
					x := total
					ctr.Add(1)
					total = x + 1
					mu.Unlock()
					w.Log(uint64(i*100 + j))
				}
				simrt.Send(ch, i)
				simrt.Send(bch, i)
			}))
		}
		sum := 0
		for i := 0; i < 3; i++ {
			sum += simrt.Recv1(ch)
		}
		for i := 0; i < 3; i++ {
			s := simrt.NewSelect(false)
			c := simrt.SelRecv(s, bch)
			s.Wait()
			sum += c.V
		}
		for _, t := range ts {
			w.Join(t)
		}
		if sum != 6 {
			w.Abort("bad sum")
		}
	})
	return w, total, w.LogHash
}

func TestDeterminismAndReplay(t *testing.T) {
	for seed := uint64(1); seed < 300; seed++ {
		w1, tot1, h1 := runOnce(seed, nil, false)
		if w1.Fail != nil {
			t.Fatalf("seed %d fail %+v", seed, w1.Fail)
		}
		if tot1 != 30 {
			t.Fatalf("total %d", tot1)
		}
		w2, _, h2 := runOnce(seed, nil, false)
		if h1 != h2 || w1.Steps != w2.Steps || w1.SwitchHash != w2.SwitchHash {
			t.Fatalf("seed %d nondeterministic", seed)
		}
		w3, _, h3 := runOnce(seed, w1.Rec, true)
		if h1 != h3 || w1.Steps != w3.Steps || w1.SwitchHash != w3.SwitchHash {
			t.Fatalf("seed %d replay differs: steps %d vs %d, devs %d", seed, w1.Steps, w3.Steps, len(w1.Rec))
		}
	}
}

func TestDeadlock(t *testing.T) {
	var a, b ssync.Mutex
	found := false
	for seed := uint64(1); seed < 200 && !found; seed++ {
		rng := simrt.NewRng(seed, 99)
		w := simrt.Run(simrt.Config{Seed: seed, Strat: simrt.DrawStrategy(&rng, 50)}, func(w *simrt.World) {
			t1 := w.Spawn("x", func() { a.Lock(); b.Lock(); b.Unlock(); a.Unlock() })
			t2 := w.Spawn("y", func() { b.Lock(); a.Lock(); a.Unlock(); b.Unlock() })
			w.Join(t1)
			w.Join(t2)
		})
		if w.Fail != nil && w.Fail.Kind == simrt.FailDeadlock {
			found = true
			// both mutexes stay locked in this world only; fresh ones next iteration
			a, b = ssync.Mutex{}, ssync.Mutex{}
		}
	}
	if !found {
		t.Fatal("deadlock never found")
	}
}
