// simworker runs simulated executions of instrumented otter for one property.
package main

import (
	"encoding/json"
	"flag"
	"fmt"
	"os"
	"runtime/debug"
	"strings"
	"time"

	zz "github.com/maypok86/otter/v2/internal/zzverif"
	"verifsim/sruntime"
)

func main() {
	prop := flag.String("prop", "", "property id")
	tier := flag.String("tier", "quick", "quick|thorough")
	seed := flag.Uint64("seed", 1, "base seed")
	worker := flag.Int("worker", 0, "worker index")
	nworkers := flag.Int("nworkers", 1, "number of workers")
	budget := flag.Float64("budget", 10, "search budget in seconds")
	out := flag.String("out", ".", "output directory for stats")
	replays := flag.String("replays", "replays", "directory for replay files")
	known := flag.String("known", "", "known findings file")
	replay := flag.String("replay", "", "replay a file")
	merge := flag.String("merge", "", "comma separated hash files: print distinct count")
	minS := flag.Float64("minimize", 15, "minimisation budget (s)")
	det := flag.Int("det", 0, "determinism self-test: run this many seeds once each and print one line per run")
	detRev := flag.Bool("detrev", false, "determinism self-test: run the seeds in reverse order")
	specF := flag.String("spec", "", "development: use this property's engines, report -prop's rules")
	flag.Parse()
	sruntime.Disabled = true
	debug.SetGCPercent(200)
	if *det > 0 {
		for _, l := range zz.DetRun(*prop, *seed, *det, *detRev) {
			fmt.Println(l)
		}
		return
	}
	if *merge != "" {
		fmt.Println(zz.MergeHashes(strings.Split(*merge, ",")))
		return
	}
	if *replay != "" {
		rp, viol, hash, err := zz.ReplayFile(*replay)
		if err != nil {
			fmt.Fprintln(os.Stderr, "replay:", err)
			os.Exit(2)
		}
		reproduced := false
		for _, v := range viol {
			if v.Rule == rp.Expect.Rule {
				reproduced = true
				fmt.Printf("reproduced rule=%s key=%d step=%d log_hash=%s (expected %s)\n  %s\n", v.Rule, v.Key, v.Step, hash, rp.Expect.LogHash, v.Detail)
				break
			}
		}
		if reproduced {
			exact := "exact"
			if hash != rp.Expect.LogHash {
				exact = "DIFFERENT-LOG-HASH"
			}
			fmt.Printf("VIOLATION property=%s replay=%s (%s)\n", rp.Property, *replay, exact)
			os.Exit(1)
		}
		fmt.Printf("replay of %s did not reproduce %s (violations now: %d)\n", *replay, rp.Expect.Rule, len(viol))
		os.Exit(0)
	}
	var kf []zz.KnownFinding
	if *known != "" {
		if b, err := os.ReadFile(*known); err == nil {
			var doc struct {
				Findings []zz.KnownFinding `json:"findings"`
			}
			if err := json.Unmarshal(b, &doc); err != nil {
				fmt.Fprintln(os.Stderr, "known findings:", err)
				os.Exit(2)
			}
			kf = doc.Findings
		}
	}
	st := zz.RunWorker(&zz.WorkerOpts{Prop: *prop, Tier: *tier, Seed: *seed, Worker: *worker, NWorkers: *nworkers,
		Budget: time.Duration(*budget * float64(time.Second)), OutDir: *out, ReplayDir: *replays, Known: kf, MinimizeS: *minS, Spec: *specF})
	fmt.Printf("worker %d: runs=%d nontrivial=%d violations=%d known=%d\n", *worker, st.Runs, st.NonTrivial, len(st.Violations), len(st.Known))
}
