#!/bin/bash
# trace.sh <replay.json> [lines]: print config + traced replay (development helper; needs /var/tmp/vs2 built)
f=$1
python3 - "$f" <<'PY'
import json,sys
d=json.load(open(sys.argv[1]))
for eng in ('seq','conc','comp'):
    if d.get(eng):
        c=d[eng].get('config',{})
        print({k:v for k,v in c.items() if v not in (None,0,False,[],[None,None,None],[None,None,None,None])}, d[eng].get('saveload'))
PY
VERIF_TRACE=1 /var/tmp/vs2/simworker -replay $f | cut -c1-${3:-400} | tail -${2:-14}
