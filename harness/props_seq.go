package zzverif

func init() {
	Props["C01"] = &PropSpec{ID: "C01", Engines: []Engine{&seqEngine{
		profile: Profile{Prop: "C01", Executor: []string{"sync"}},
		nontrivial: func(o *SeqOutcome) bool {
			abs, live, gone := false, false, false
			for k, n := range o.Probes {
				if n == 0 {
					continue
				}
				switch {
				case len(k) > 3 && k[:3] == "op:" && hasSuffix(k, "@absent"):
					abs = true
				case len(k) > 3 && k[:3] == "op:" && hasSuffix(k, "@live"):
					live = true
				case len(k) > 3 && k[:3] == "op:" && hasSuffix(k, "@expired-unswept"):
					gone = true
				case k == "auto-overflow" || k == "auto-expiration":
					gone = true
				}
			}
			return abs && live && gone
		},
	}}}
}

func hasSuffix(s, suf string) bool { return len(s) >= len(suf) && s[len(s)-len(suf):] == suf }
