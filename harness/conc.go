package zzverif

import (
	"fmt"
	"math"
	"sort"
	"strings"
	"unsafe"

	otter "github.com/maypok86/otter/v2"
	"verifsim/simrt"
)

// ConcOpts configures the concurrent engine for a property.
type ConcOpts struct {
	Profile   Profile
	OpW       map[string]int
	Tasks     [2]int
	OpsPer    [2]int
	Prefill   [2]int
	Executors []string
	Lin       bool // per-key linearizability (porcupine)
	// quiescence protocol
	NoCleanup  bool // C14: audit without calling anything after the clients returned
	HotKeys    [2]int
	AllowStall bool
	StallP     int  // with AllowStall: one load plan in StallP parks its loader until the rest of the system is idle (default 12)
	Resize     bool // a third of the runs: filler keys around the table's grow / shrink thresholds
	Rounds     bool // C03: the clock only moves at barriers between rounds; deadline-aware lin model
	SweepCheck bool // C13: advance the clock by more than a tick before the final CleanUp and demand a clean sweep
	AsyncClock bool // C03/C02: tasks advance the clock while other operations are in flight; interval deadline model
	Duel       bool // a third of the runs: the tiny "read near the deadline vs clock step + CleanUp" scenario (see sweepDuel)
	AimAdvance bool // half of the clock advances are aimed at the configured lifetime (d, d-1, d/2+1, d+0..2, d/3+1)
	WakeDuel   bool // a quarter of the runs: the tiny "non-writer asks for a drain while a writer publishes" scenario (see wakeDuel)
	Admission  bool // C18: observe maintenance passes, estimate look-ups and evictions; judge every displacement (conc_admit.go)
	IterDuel   bool // a quarter of the runs: the tiny "slow traversal vs rewrite with a shorter lifetime" scenario (see iterDuel)
	TinyP      int  // one run in TinyP is a tiny program (2-3 tasks x 1-3 operations, 1-2 keys)
	Ticker     bool // half of the runs: clock advances feed the clock's ticker, so otter's periodic clean-up goroutine runs CleanUp concurrently with the clients
	NonTrivial func(o *ConcOutcome) bool
}

// ConcCase is a concurrent program.
type ConcCase struct {
	Cfg     Cfg    `json:"config"`
	Prefill []Op   `json:"prefill,omitempty"`
	Tasks   [][]Op `json:"tasks"`
	// Mode names the engine options that change how the run ends and which oracles look at it
	// (a property may have several concurrent engines); a replay file carries it along.
	Mode *ConcMode `json:"mode,omitempty"`
}

type ConcMode struct {
	Lin        bool `json:"lin,omitempty"`
	Rounds     bool `json:"rounds,omitempty"`
	NoCleanup  bool `json:"no_cleanup,omitempty"`
	SweepCheck bool `json:"sweep_check,omitempty"`
	AsyncClock bool `json:"async_clock,omitempty"`
	Admission  bool `json:"admission,omitempty"`
	FarSweep   bool `json:"far_sweep,omitempty"` // sweep check: the final clock jump goes past every remaining deadline
}

// HistOp is one recorded operation of a client task.
type HistOp struct {
	Task   int
	Idx    int
	Op     *Op
	Call   uint64
	Ret    uint64
	Res    Result
	Done   bool
	Now    int64 // simulated clock when the operation was invoked
	NowRet int64 // ... and when it returned
}

type ConcOutcome struct {
	Infra      string // set when the harness could not set the run up: infrastructure trouble, not a verdict
	Viol       []Violation
	LogHash    uint64
	Steps      uint64
	Switches   uint64
	SwitchHash uint64
	Rec        []simrt.Deviation
	RecOver    bool
	Hist       []*HistOp
	Probes     map[string]int
	Faults     map[string]int
	Points     map[string]int
	Strategy   string
	Fail       *simrt.Failure
	LinChecked int
	LinUnknown int
	SimTime    int64
	Overlaps   int // pairs of operations on the same key that overlapped in time with >=1 writer
}

type concRun struct {
	w     *simrt.World
	r     *Runner
	cc    *ConcCase
	opts  *ConcOpts
	hist  []*HistOp
	viol  []Violation
	probe map[string]int
	// quiescence observations
	auditNoCleanup    *otter.VerifAudit
	auditFinal        *otter.VerifAudit
	rawNoCleanup      []otter.Entry[int, int]
	rawAfterSweep     []otter.Entry[int, int]
	sweepNow          int64
	finalAll          []EntryView
	finalHot          []EntryView
	finalCold         []EntryView
	finalWSize        uint64
	finalESize        int
	finalMax          uint64
	finalStats        Result
	liveAtEnd         []string
	eventsAtNoCleanup int
	freshLoadOK       bool
	freshLoadTried    bool
	execTask          *simrt.Task
	execAddr          byte
	stop              bool
	taskFinish        map[int]uint64
	barArrived        int
	barGen            int
	barAdvance        int64
	barAddr           byte
}

func (cr *concRun) fail(props []string, rule string, key int, format string, a ...any) {
	// results and bookkeeping of a run with a saturated read buffer are also C17's ("dropping reads
	// never changes what any cache operation returns"): linearizability, views and audits
	if also := cr.opts.Profile.AlsoProp; also != "" && (strings.HasPrefix(rule, "lin.") || strings.HasPrefix(rule, "audit.") || strings.HasPrefix(rule, "views.") || strings.HasPrefix(rule, "bound.")) {
		props = withProp(props, also)
	}
	if len(cr.viol) < 30 {
		cr.viol = append(cr.viol, Violation{Props: props, Rule: rule, Detail: fmt.Sprintf(format, a...), Step: -1, Key: key})
	}
}

// RunConc executes a concurrent case. schedule+replay: replay mode; otherwise strat decides.
func RunConc(seed uint64, cc *ConcCase, schedule []simrt.Deviation, replay bool, spec *PropSpec) *ConcOutcome {
	return runConc(seed, cc, schedule, replay, spec.Conc, nil)
}

func runConc(seed uint64, cc *ConcCase, schedule []simrt.Deviation, replay bool, opts *ConcOpts, strat simrt.Strategy) *ConcOutcome {
	out := &ConcOutcome{Probes: map[string]int{}}
	cfg := cc.Cfg
	if m := cc.Mode; m != nil {
		o2 := *opts
		o2.Lin, o2.Rounds, o2.NoCleanup, o2.SweepCheck, o2.AsyncClock, o2.Admission = m.Lin, m.Rounds, m.NoCleanup, m.SweepCheck, m.AsyncClock, m.Admission
		opts = &o2
	}
	cr := &concRun{cc: cc, opts: opts, probe: out.Probes, taskFinish: map[int]uint64{}}
	scfg := simrt.Config{Seed: seed, Parallelism: cfg.Parallelism, HashMode: cfg.HashMode, PoolMode: cfg.PoolMode,
		ClockOrigin: cfg.ClockOrigin, MaxSteps: 3_000_000, Strat: strat, Replay: schedule, ReplayMode: replay}
	w := simrt.Run(scfg, func(w *simrt.World) {
		cr.w = w
		cr.main()
	})
	out.Steps, out.Switches, out.SwitchHash, out.LogHash = w.Steps, w.Switches, w.SwitchHash, w.LogHash
	out.Rec, out.RecOver = w.Rec, w.RecOverflow()
	out.Fail = w.Fail
	out.Points = map[string]int{}
	for i, n := range w.PointsByKind {
		if n > 0 {
			out.Points[simrt.KindNames[i]] = int(n)
		}
	}
	if cr.r != nil {
		out.Faults = cr.r.Faults
		out.Faults["pool-reuse"] += int(w.PoolHits)
		out.Faults["pool-miss"] += int(w.PoolMisses)
		out.Faults["spin-forced-yield"] += int(w.SpinYields)
		out.Faults["task-stalled"] += int(w.Stalls)
		out.Faults["task-stalled-steps"] += int(w.StallSteps)
		out.SimTime = w.Now - cfg.ClockOrigin
	}
	if strat != nil {
		out.Strategy = strat.Name()
	}
	out.Hist = cr.hist
	if w.Fail != nil && w.Fail.Kind == simrt.FailSetup {
		out.Infra = w.Fail.Detail
	} else if w.Fail != nil && w.Fail.Kind == simrt.FailStepBudgetUnfair {
		out.Probes["inconclusive-step-budget-under-strategy"]++
	} else if w.Fail != nil {
		props := P("C08", "C14", "C02")
		rule := "sim." + string(w.Fail.Kind)
		if w.Fail.Kind == simrt.FailHarness {
			props = P("C02", "C04", "C05", "C06", "C08", "C09", "C14", "C15", "C16", "C17", "C20")
		}
		// a client that never got out of a manual refresh is owed its result by C11, one stuck in a
		// loading call by C10 (besides the liveness halves of C08 / C14)
		for _, h := range cr.hist {
			if h.Done {
				continue
			}
			switch h.Op.Kind {
			case "refresh", "bulkrefresh":
				props = withProp(props, "C11")
			case "load", "bulkget":
				props = withProp(props, "C10")
			}
		}
		cr.fail(props, rule, -1, "%s", w.Fail.Detail)
	} else {
		cr.analyse(out)
	}
	for _, p := range w.BgPanics {
		if shortPanic(p) != "injected" {
			cr.fail(P("C02", "C04", "C05", "C06", "C08", "C09", "C14", "C16", "C17"), "bg.panic", -1, "background task panicked: %s", shortPanic(p))
		} else {
			out.Probes["bg-task-died-of-injected-panic"]++
		}
	}
	out.Viol = cr.viol
	return out
}

func (cr *concRun) main() {
	w := cr.w
	cc := cr.cc
	cfg := &cc.Cfg
	var r *Runner
	w.NoPreempt(func() { r = NewRunner(w, cfg) })
	cr.r = r
	if cr.opts.Admission {
		cr.watchAdmission()
	}
	mainCtx := &taskCtx{id: -1, opIdx: -1}
	simrt.Cur().Tag = mainCtx
	if cfg.Executor == "queued" {
		// executor task: runs handed-over functions one at a time, in FIFO order, whenever scheduled
		r.C = r.C // (cache built with Queue executor: see NewRunner)
		cr.execTask = w.Spawn("executor", func() {
			for {
				for len(r.Queue) == 0 {
					if cr.stop {
						return
					}
					simrt.BlockOn("exec-queue", unsafe.Pointer(&cr.execAddr))
				}
				fn := r.Queue[0]
				r.Queue = r.Queue[1:]
				r.runExec(fn)
			}
		})
		r.onQueue = func() { simrt.WakeAll(unsafe.Pointer(&cr.execAddr)) }
	}
	w.OnIdle = func() bool {
		if r.ReleaseStalled() {
			cr.probe["stalled-loader-released-at-idle"]++
			return true
		}
		return false
	}
	// prefill, sequentially
	for i := range cc.Prefill {
		op := &cc.Prefill[i]
		mainCtx.opIdx, mainCtx.opKind, mainCtx.op = i, op.Kind, op
		h := &HistOp{Task: -1, Idx: i, Op: op, Call: w.Tick(), Now: w.Now}
		h.Res = r.Exec(op)
		h.Ret, h.NowRet = w.Tick(), w.Now
		h.Done = true
		cr.hist = append(cr.hist, h)
	}
	mainCtx.opIdx, mainCtx.opKind, mainCtx.op = -1, "", nil
	var tasks []*simrt.Task
	for ti := range cc.Tasks {
		ti := ti
		ops := cc.Tasks[ti]
		t := w.Spawn(fmt.Sprintf("c%d", ti), func() {
			ctx := &taskCtx{id: ti, opIdx: -1}
			simrt.Cur().Tag = ctx
			for i := range ops {
				op := &ops[i]
				if op.Kind == "barrier" {
					ctx.opIdx, ctx.opKind, ctx.op = -1, "", nil
					cr.barrier(len(cc.Tasks), op.D)
					continue
				}
				ctx.opIdx, ctx.opKind, ctx.op = i, op.Kind, op
				h := &HistOp{Task: ti, Idx: i, Op: op, Call: w.Tick(), Now: w.Now}
				cr.hist = append(cr.hist, h)
				simrt.BeginOp(simrt.HashString(op.Kind))
				h.Res = r.Exec(op)
				h.Ret, h.NowRet = w.Tick(), w.Now
				h.Done = true
				w.Log(uint64(ti)<<48 ^ uint64(i)<<32 ^ uint64(uint32(h.Res.V))<<1 ^ b2u(h.Res.Ok))
			}
			ctx.opIdx, ctx.opKind, ctx.op = -1, "", nil
		})
		tasks = append(tasks, t)
	}
	for _, t := range tasks {
		w.Join(t)
	}
	// fair drain to quiescence: no more deviations, round-robin
	w.SetFair(true)
	cr.quiesce()
	cr.liveAtEnd = w.BlockedTasks()
	w.NoPreempt(func() {
		cr.auditNoCleanup = otter.VerifAuditCache(r.C, w.Now)
		cr.rawNoCleanup = otter.VerifRawEntries(r.C)
		cr.eventsAtNoCleanup = len(r.Events)
	})
	if cr.opts.SweepCheck {
		// every write has returned; move the clock more than one tick past "now" - or, in half of
		// the runs, more than one tick past the latest deadline any present entry has, after which
		// the CleanUp must leave nothing behind (an entry the timer wheel lost track of shows here)
		step := int64(tickSlack + 7)
		if cc.Mode != nil && cc.Mode.FarSweep {
			far := w.Now
			for _, e := range cr.rawNoCleanup {
				if e.ExpiresAtNano > far {
					far = e.ExpiresAtNano
				}
			}
			if far-w.Now < math.MaxInt64/4 && w.Now < math.MaxInt64/4 {
				step += far - w.Now
				cr.probe["sweep-final-advance-past-all-deadlines"]++
			}
		}
		r.Advance(step)
		cr.probe["sweep-final-advance"]++
	}
	if !cr.opts.NoCleanup {
		// pending maintenance: CleanUp until idle (at most 3 times), executor drained each time
		for i := 0; i < 3; i++ {
			mainCtx.opKind = "cleanup"
			r.C.CleanUp()
			cr.quiesce()
			var a *otter.VerifAudit
			w.NoPreempt(func() { a = otter.VerifAuditCache(r.C, w.Now) })
			if a.DrainStatus == 0 && a.WriteBufferSize == 0 {
				break
			}
		}
		mainCtx.opKind = "final-views"
		for k, v := range r.C.All() {
			e, ok := r.C.GetEntryQuietly(k)
			ev := EntryView{K: k, V: v}
			if ok {
				ev.W, ev.Exp, ev.Ref = e.Weight, e.ExpiresAtNano, e.RefreshableAtNano
			}
			cr.finalAll = append(cr.finalAll, ev)
		}
		for e := range r.C.Hottest() {
			cr.finalHot = append(cr.finalHot, *view(e))
		}
		for e := range r.C.Coldest() {
			cr.finalCold = append(cr.finalCold, *view(e))
		}
		if cr.opts.SweepCheck {
			w.NoPreempt(func() { cr.rawAfterSweep = otter.VerifRawEntries(r.C) })
			cr.sweepNow = w.Now
		}
		cr.finalWSize = r.C.WeightedSize()
		cr.finalESize = r.C.EstimatedSize()
		cr.finalMax = r.C.GetMaximum()
		cr.quiesce()
		w.NoPreempt(func() { cr.auditFinal = otter.VerifAuditCache(r.C, w.Now) })
		if cfg.Stats {
			cr.finalStats = r.Exec(&Op{Kind: "stats"})
		}
		// a later Get of an absent key must load afresh (no in-flight record left behind)
		present := map[int]bool{}
		for _, e := range cr.finalAll {
			present[e.K] = true
		}
		for k := 0; k < cfg.Keys; k++ {
			if !present[k] {
				before := len(r.Loads)
				op := &Op{Kind: "load", K: k, V: 9_000_000 * 32, Load: &LoadPlan{Kind: "err"}}
				mainCtx.opKind = "fresh-load"
				r.Exec(op)
				cr.freshLoadTried = true
				cr.freshLoadOK = len(r.Loads) == before+1
				break
			}
		}
		cr.quiesce()
	}
	cr.stop = true
	simrt.WakeAll(unsafe.Pointer(&cr.execAddr))
	r.C.StopAllGoroutines()
}

func keysOf(op *Op) []int {
	switch op.Kind {
	case "bulkget", "bulkrefresh":
		return op.Ks
	case "invalidateall", "all", "keys", "values", "hottest", "coldest", "setmax", "getmax", "wsize", "esize", "cleanup", "stats", "advance", "runexec":
		return nil
	}
	return []int{op.K}
}

func isWriteOp(op *Op) bool {
	switch op.Kind {
	case "set", "setifabsent", "invalidate", "invalidateall", "load", "bulkget", "refresh", "bulkrefresh":
		return true
	case "compute", "computeifabsent", "computeifpresent":
		return op.Comp != "cancel"
	}
	return false
}

func sortedEntryKeys(es []EntryView) []int {
	ks := make([]int, 0, len(es))
	for _, e := range es {
		ks = append(ks, e.K)
	}
	sort.Ints(ks)
	return ks
}

// quiesce waits until nothing but daemons is left; loaders parked by a stall plan are released
// whenever the rest of the system has come to rest ("stall until quiescence").
func (cr *concRun) quiesce() {
	for {
		cr.w.AwaitQuiescence()
		if !cr.r.ReleaseStalled() {
			return
		}
		cr.probe["stalled-loader-released-at-quiescence"]++
	}
}

// barrier: all client tasks meet; the last one to arrive moves the clock (the property's
// "the clock only moves between operations") and releases the others.
func (cr *concRun) barrier(n int, advance int64) {
	if advance > cr.barAdvance {
		cr.barAdvance = advance
	}
	cr.barArrived++
	if cr.barArrived == n {
		cr.barArrived = 0
		cr.barGen++
		d := cr.barAdvance
		cr.barAdvance = 0
		cr.r.Advance(d)
		cr.probe["barrier-clock-advances"]++
		simrt.WakeAll(unsafe.Pointer(&cr.barAddr))
		return
	}
	gen := cr.barGen
	for cr.barGen == gen {
		simrt.BlockOn("barrier", unsafe.Pointer(&cr.barAddr))
	}
}
