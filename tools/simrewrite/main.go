// simrewrite instruments a scratch copy of otter for deterministic simulation (see DESIGN.md §2.1).
//
//	simrewrite -dir <scratch module root> [-tests]
//
// It rewrites, in place, every non-test Go file of the module's packages:
//   - imports sync, sync/atomic, hash/maphash, math/rand/v2 -> verifsim shims (same identifiers)
//   - go statements, channel send/receive/close/select, range over maps
//   - time.Now/Since/Until/Sleep/Tick/After, runtime.GOMAXPROCS/NumCPU/Gosched/AddCleanup
//
// With -tests the import substitution (only) is applied to _test.go files as well, so that the
// repository's own tests compile against the instrumented tree in pass-through mode.
// Anything it does not understand makes it exit 2.
package main

import (
	"bytes"
	"flag"
	"fmt"
	"go/ast"
	"go/format"
	"go/parser"
	"go/token"
	"go/types"
	"os"
	"path/filepath"
	"sort"
	"strconv"
	"strings"

	"golang.org/x/tools/go/ast/astutil"
	"golang.org/x/tools/go/packages"
)

var importSubst = map[string]string{
	"sync":         "verifsim/ssync",
	"sync/atomic":  "verifsim/satomic",
	"hash/maphash": "verifsim/smaphash",
	"math/rand/v2": "verifsim/srand",
}

var defaultName = map[string]string{
	"sync":         "sync",
	"sync/atomic":  "atomic",
	"hash/maphash": "maphash",
	"math/rand/v2": "rand",
}

var timeFuncs = map[string]bool{"Now": true, "Since": true, "Until": true, "Sleep": true, "Tick": true, "After": true}
var timeUnsupported = map[string]bool{"NewTimer": true, "NewTicker": true, "AfterFunc": true}
var runtimeFuncs = map[string]bool{"GOMAXPROCS": true, "NumCPU": true, "Gosched": true, "AddCleanup": true}

type stats struct {
	files, imports, gos, sends, recvs, selects, mapRanges, closes, timeCalls, runtimeCalls, probes int
}

var st stats

func fatalf(format string, a ...any) {
	fmt.Fprintf(os.Stderr, "simrewrite: "+format+"\n", a...)
	os.Exit(2)
}

func main() {
	dir := flag.String("dir", "", "module root of the scratch copy")
	tests := flag.Bool("tests", false, "also substitute imports in _test.go files")
	flag.Parse()
	if *dir == "" {
		fatalf("-dir required")
	}
	abs, err := filepath.Abs(*dir)
	if err != nil {
		fatalf("%v", err)
	}
	cfg := &packages.Config{
		Mode: packages.NeedName | packages.NeedFiles | packages.NeedSyntax | packages.NeedTypes | packages.NeedTypesInfo | packages.NeedImports | packages.NeedDeps | packages.NeedCompiledGoFiles,
		Dir:  abs,
		Env:  append(os.Environ(), "GOFLAGS=-mod=mod", "GOPROXY=off", "GOSUMDB=off", "GOTOOLCHAIN=local"),
	}
	pkgs, err := packages.Load(cfg, "./...")
	if err != nil {
		fatalf("load: %v", err)
	}
	nerr := 0
	for _, p := range pkgs {
		for _, e := range p.Errors {
			fmt.Fprintf(os.Stderr, "simrewrite: %s: %v\n", p.PkgPath, e)
			nerr++
		}
	}
	if nerr > 0 {
		os.Exit(2)
	}
	sort.Slice(pkgs, func(i, j int) bool { return pkgs[i].PkgPath < pkgs[j].PkgPath })
	for _, p := range pkgs {
		for i, f := range p.Syntax {
			name := p.CompiledGoFiles[i]
			if !strings.HasPrefix(name, abs) {
				continue
			}
			if strings.HasSuffix(name, "_test.go") {
				continue
			}
			rewriteFile(p, f, name)
		}
	}
	if *tests {
		filepath.Walk(abs, func(path string, info os.FileInfo, err error) error {
			if err == nil && !info.IsDir() && strings.HasSuffix(path, "_test.go") {
				substTestImports(path)
			}
			return nil
		})
	}
	// gate: re-parse what was written; nothing nondeterministic may be left
	for _, p := range pkgs {
		for _, name := range p.CompiledGoFiles {
			if strings.HasPrefix(name, abs) && !strings.HasSuffix(name, "_test.go") {
				gate(name)
			}
		}
	}
	fmt.Printf("simrewrite: files=%d imports=%d go=%d send=%d recv=%d select=%d maprange=%d close=%d time=%d runtime=%d probes=%d\n",
		st.files, st.imports, st.gos, st.sends, st.recvs, st.selects, st.mapRanges, st.closes, st.timeCalls, st.runtimeCalls, st.probes)
}

func substTestImports(path string) {
	fset := token.NewFileSet()
	f, err := parser.ParseFile(fset, path, nil, parser.ParseComments)
	if err != nil {
		fatalf("%v", err)
	}
	changed := false
	for _, is := range f.Imports {
		p, _ := strconv.Unquote(is.Path.Value)
		if np, ok := importSubst[p]; ok {
			if is.Name == nil {
				is.Name = ast.NewIdent(defaultName[p])
			}
			is.Path.Value = strconv.Quote(np)
			changed = true
		}
	}
	if changed {
		writeFile(fset, f, path)
	}
}

func writeFile(fset *token.FileSet, f *ast.File, path string) {
	var buf bytes.Buffer
	if err := format.Node(&buf, fset, f); err != nil {
		fatalf("format %s: %v", path, err)
	}
	if err := os.WriteFile(path, buf.Bytes(), 0o644); err != nil {
		fatalf("%v", err)
	}
}

type rewriter struct {
	p       *packages.Package
	f       *ast.File
	name    string
	counter int
	needRT  bool
	needST  bool
	needSR  bool
}

func (r *rewriter) pos(n ast.Node) string { return r.p.Fset.Position(n.Pos()).String() }

func (r *rewriter) fresh(prefix string) string {
	r.counter++
	return fmt.Sprintf("__vs%s%d", prefix, r.counter)
}

func (r *rewriter) isPkg(id *ast.Ident, path string) bool {
	if obj, ok := r.p.TypesInfo.Uses[id].(*types.PkgName); ok {
		return obj.Imported().Path() == path
	}
	return false
}

func (r *rewriter) typeOf(e ast.Expr) types.Type {
	if tv, ok := r.p.TypesInfo.Types[e]; ok {
		return tv.Type
	}
	return nil
}

func isMap(t types.Type) bool {
	if t == nil {
		return false
	}
	switch u := t.Underlying().(type) {
	case *types.Map:
		return true
	case *types.Interface:
		// type parameter constraint with core type map
		if tp, ok := t.(*types.TypeParam); ok {
			_ = tp
		}
		_ = u
	}
	return false
}

func isChan(t types.Type) bool {
	if t == nil {
		return false
	}
	_, ok := t.Underlying().(*types.Chan)
	return ok
}

func sel(x, s string) *ast.SelectorExpr {
	return &ast.SelectorExpr{X: ast.NewIdent(x), Sel: ast.NewIdent(s)}
}

func call(fun ast.Expr, args ...ast.Expr) *ast.CallExpr { return &ast.CallExpr{Fun: fun, Args: args} }

func rewriteFile(p *packages.Package, f *ast.File, name string) {
	r := &rewriter{p: p, f: f, name: name}
	st.files++
	// 1. imports
	for _, is := range f.Imports {
		ip, _ := strconv.Unquote(is.Path.Value)
		if np, ok := importSubst[ip]; ok {
			if is.Name == nil {
				is.Name = ast.NewIdent(defaultName[ip])
			} else if is.Name.Name == "_" || is.Name.Name == "." {
				fatalf("%s: unsupported import form for %s", name, ip)
			}
			is.Path.Value = strconv.Quote(np)
			st.imports++
		}
	}
	// 2. statements / expressions
	ast.Inspect(f, func(n ast.Node) bool {
		if cl, ok := n.(*ast.CommClause); ok && cl.Comm != nil {
			switch cm := cl.Comm.(type) {
			case *ast.ExprStmt:
				if u := asRecv(cm.X); u != nil {
					commExprs[u] = true
				}
			case *ast.AssignStmt:
				if len(cm.Rhs) == 1 {
					if u := asRecv(cm.Rhs[0]); u != nil {
						commExprs[u] = true
					}
				}
			}
		}
		return true
	})
	astutil.Apply(f, nil, func(c *astutil.Cursor) bool {
		switch n := c.Node().(type) {
		case *ast.FuncDecl:
			// optional observation points (see probePoints): a call to simrt.Probe at function entry
			if name, ok := probeName(n); ok && n.Body != nil && n.Type.Params != nil && len(n.Type.Params.List) >= 1 && len(n.Type.Params.List[0].Names) >= 1 {
				arg := ast.NewIdent(n.Type.Params.List[0].Names[0].Name)
				stmt := &ast.ExprStmt{X: call(sel("simrt", "Probe"), &ast.BasicLit{Kind: token.STRING, Value: strconv.Quote(name)}, call(ast.NewIdent("any"), arg))}
				n.Body.List = append([]ast.Stmt{stmt}, n.Body.List...)
				r.needRT = true
				st.probes++
			}
		case *ast.GoStmt:
			c.Replace(r.rewriteGo(n))
		case *ast.SendStmt:
			if _, inComm := c.Parent().(*ast.CommClause); inComm {
				return true // handled (rejected) by select rewriting
			}
			r.needRT = true
			st.sends++
			c.Replace(&ast.ExprStmt{X: call(sel("simrt", "Send"), n.Chan, n.Value)})
		case *ast.UnaryExpr:
			if n.Op != token.ARROW || commExprs[n] {
				return true
			}
			two := false
			switch par := c.Parent().(type) {
			case *ast.AssignStmt:
				two = len(par.Lhs) == 2 && len(par.Rhs) == 1
			case *ast.ValueSpec:
				two = len(par.Names) == 2 && len(par.Values) == 1
			}
			r.needRT = true
			st.recvs++
			if two {
				c.Replace(call(sel("simrt", "Recv2"), n.X))
			} else {
				c.Replace(call(sel("simrt", "Recv1"), n.X))
			}
		case *ast.SelectStmt:
			if _, labeled := c.Parent().(*ast.LabeledStmt); labeled {
				fatalf("%s: labeled select is not supported", r.pos(n))
			}
			c.Replace(r.rewriteSelect(n))
		case *ast.RangeStmt:
			t := r.typeOf(n.X)
			if isChan(t) {
				fatalf("%s: range over channel is not supported", r.pos(n))
			}
			if isMap(t) {
				if _, labeled := c.Parent().(*ast.LabeledStmt); labeled {
					fatalf("%s: labeled range over map is not supported", r.pos(n))
				}
				c.Replace(r.rewriteMapRange(n))
			}
		case *ast.CallExpr:
			if id, ok := n.Fun.(*ast.Ident); ok && id.Name == "close" && len(n.Args) == 1 {
				if _, isBuiltin := r.p.TypesInfo.Uses[id].(*types.Builtin); isBuiltin {
					r.needRT = true
					st.closes++
					n.Fun = sel("simrt", "Close")
				}
			}
		case *ast.SelectorExpr:
			id, ok := n.X.(*ast.Ident)
			if !ok {
				return true
			}
			if r.isPkg(id, "time") {
				if timeFuncs[n.Sel.Name] {
					r.needST = true
					st.timeCalls++
					c.Replace(sel("stime", n.Sel.Name))
				} else if timeUnsupported[n.Sel.Name] {
					fatalf("%s: time.%s is not supported", r.pos(n), n.Sel.Name)
				}
			} else if r.isPkg(id, "runtime") {
				if runtimeFuncs[n.Sel.Name] {
					r.needSR = true
					st.runtimeCalls++
					c.Replace(sel("sruntime", n.Sel.Name))
				}
			}
		}
		return true
	})
	// 3. imports for helpers; drop imports that became unused
	if r.needRT {
		astutil.AddNamedImport(p.Fset, f, "simrt", "verifsim/simrt")
	}
	if r.needST {
		astutil.AddNamedImport(p.Fset, f, "stime", "verifsim/stime")
	}
	if r.needSR {
		astutil.AddNamedImport(p.Fset, f, "sruntime", "verifsim/sruntime")
	}
	for _, path := range []string{"time", "runtime"} {
		if !usesPkgIdent(f, path) {
			astutil.DeleteImport(p.Fset, f, path)
		}
	}
	writeFile(p.Fset, f, name)
}

// probePoints: methods whose entry the harness may observe (receiver type name, method name). They are
// optional: if a tree has no such method nothing is inserted and the oracle that listens stays
// silent (its probe counter shows zero); nothing else depends on them.
var probePoints = map[[2]string]string{
	{"sketch", "frequency"}: "sketch.frequency", // C18: which estimates an eviction decision looked at
	{"cache", "evictNode"}:   "cache.evictNode",  // C18: every attempt to evict a node for size (argument: the node)
	{"policy", "evictNodes"}: "policy.evictNodes", // C18: beginning of one run of the eviction loop (arrivals are what enters the main region after it)
}

func probeName(fd *ast.FuncDecl) (string, bool) {
	if fd.Recv == nil || len(fd.Recv.List) != 1 {
		return "", false
	}
	t := fd.Recv.List[0].Type
	if s, ok := t.(*ast.StarExpr); ok {
		t = s.X
	}
	switch x := t.(type) {
	case *ast.IndexExpr:
		t = x.X
	case *ast.IndexListExpr:
		t = x.X
	}
	id, ok := t.(*ast.Ident)
	if !ok {
		return "", false
	}
	name, ok := probePoints[[2]string{id.Name, fd.Name.Name}]
	return name, ok
}

// commExprs marks the receive expressions that are the communication of a select clause; they
// are consumed by rewriteSelect and must not be rewritten on their own.
var commExprs = map[*ast.UnaryExpr]bool{}

func usesPkgIdent(f *ast.File, path string) bool {
	name := filepath.Base(path)
	for _, is := range f.Imports {
		ip, _ := strconv.Unquote(is.Path.Value)
		if ip == path && is.Name != nil {
			name = is.Name.Name
		}
	}
	used := false
	ast.Inspect(f, func(n ast.Node) bool {
		if se, ok := n.(*ast.SelectorExpr); ok {
			if id, ok := se.X.(*ast.Ident); ok && id.Name == name && id.Obj == nil {
				used = true
			}
		}
		return !used
	})
	return used
}

func (r *rewriter) rewriteGo(n *ast.GoStmt) ast.Stmt {
	r.needRT = true
	st.gos++
	ce := n.Call
	var pre []ast.Stmt
	fn := ce.Fun
	// evaluate the function value and the arguments now, like a go statement does
	if _, isLit := fn.(*ast.FuncLit); !isLit {
		tv, ok := r.p.TypesInfo.Types[fn]
		if ok && tv.IsBuiltin() {
			fatalf("%s: go <builtin> is not supported", r.pos(n))
		}
		name := r.fresh("f")
		pre = append(pre, &ast.AssignStmt{Lhs: []ast.Expr{ast.NewIdent(name)}, Tok: token.DEFINE, Rhs: []ast.Expr{fn}})
		fn = ast.NewIdent(name)
	}
	args := make([]ast.Expr, len(ce.Args))
	for i, a := range ce.Args {
		if tv, ok := r.p.TypesInfo.Types[a]; ok && tv.Value != nil {
			args[i] = a // constant
			continue
		}
		name := r.fresh("a")
		pre = append(pre, &ast.AssignStmt{Lhs: []ast.Expr{ast.NewIdent(name)}, Tok: token.DEFINE, Rhs: []ast.Expr{a}})
		args[i] = ast.NewIdent(name)
	}
	inner := &ast.CallExpr{Fun: fn, Args: args, Ellipsis: ce.Ellipsis}
	if ce.Ellipsis != token.NoPos {
		inner.Ellipsis = 1
	}
	lit := &ast.FuncLit{Type: &ast.FuncType{Params: &ast.FieldList{}}, Body: &ast.BlockStmt{List: []ast.Stmt{&ast.ExprStmt{X: inner}}}}
	pre = append(pre, &ast.ExprStmt{X: call(sel("simrt", "Go"), lit)})
	return &ast.BlockStmt{List: pre}
}

func (r *rewriter) rewriteSelect(n *ast.SelectStmt) ast.Stmt {
	r.needRT = true
	st.selects++
	selName := r.fresh("sel")
	hasDefault := false
	for _, cl := range n.Body.List {
		if cl.(*ast.CommClause).Comm == nil {
			hasDefault = true
		}
	}
	hd := "false"
	if hasDefault {
		hd = "true"
	}
	stmts := []ast.Stmt{
		&ast.AssignStmt{Lhs: []ast.Expr{ast.NewIdent(selName)}, Tok: token.DEFINE, Rhs: []ast.Expr{call(sel("simrt", "NewSelect"), ast.NewIdent(hd))}},
	}
	sw := &ast.SwitchStmt{Tag: call(&ast.SelectorExpr{X: ast.NewIdent(selName), Sel: ast.NewIdent("Wait")}), Body: &ast.BlockStmt{}}
	idx := 0
	for _, cl0 := range n.Body.List {
		cl := cl0.(*ast.CommClause)
		if cl.Comm == nil {
			sw.Body.List = append(sw.Body.List, &ast.CaseClause{List: nil, Body: cl.Body})
			continue
		}
		var recv *ast.UnaryExpr
		var assign *ast.AssignStmt
		switch cm := cl.Comm.(type) {
		case *ast.ExprStmt:
			recv = asRecv(cm.X)
		case *ast.AssignStmt:
			if len(cm.Rhs) == 1 {
				recv = asRecv(cm.Rhs[0])
			}
			assign = cm
		case *ast.SendStmt:
			fatalf("%s: select with a send case is not supported", r.pos(cm))
		}
		if recv == nil {
			fatalf("%s: unsupported select communication", r.pos(cl))
		}
		caseName := r.fresh("case")
		stmts = append(stmts, &ast.AssignStmt{Lhs: []ast.Expr{ast.NewIdent(caseName)}, Tok: token.DEFINE,
			Rhs: []ast.Expr{call(sel("simrt", "SelRecv"), ast.NewIdent(selName), recv.X)}})
		var body []ast.Stmt
		if assign != nil {
			rhs := []ast.Expr{sel(caseName, "V")}
			if len(assign.Lhs) == 2 {
				rhs = append(rhs, sel(caseName, "Ok"))
			}
			body = append(body, &ast.AssignStmt{Lhs: assign.Lhs, Tok: assign.Tok, Rhs: rhs})
		} else {
			body = append(body, &ast.AssignStmt{Lhs: []ast.Expr{ast.NewIdent("_")}, Tok: token.ASSIGN, Rhs: []ast.Expr{ast.NewIdent(caseName)}})
		}
		body = append(body, cl.Body...)
		sw.Body.List = append(sw.Body.List, &ast.CaseClause{List: []ast.Expr{&ast.BasicLit{Kind: token.INT, Value: strconv.Itoa(idx)}}, Body: body})
		idx++
	}
	stmts = append(stmts, sw)
	return &ast.BlockStmt{List: stmts}
}

func asRecv(e ast.Expr) *ast.UnaryExpr {
	for {
		if p, ok := e.(*ast.ParenExpr); ok {
			e = p.X
			continue
		}
		break
	}
	if u, ok := e.(*ast.UnaryExpr); ok && u.Op == token.ARROW {
		return u
	}
	return nil
}

func (r *rewriter) rewriteMapRange(n *ast.RangeStmt) ast.Stmt {
	r.needRT = true
	st.mapRanges++
	if n.Tok == token.ASSIGN {
		fatalf("%s: range over map with '=' is not supported", r.pos(n))
	}
	mName := r.fresh("m")
	keyName := "_"
	var keyIdent *ast.Ident
	if n.Key != nil {
		id, ok := n.Key.(*ast.Ident)
		if !ok {
			fatalf("%s: unsupported range key", r.pos(n))
		}
		keyIdent = id
		keyName = id.Name
	}
	if keyName == "_" {
		keyName = r.fresh("k")
		keyIdent = ast.NewIdent(keyName)
	}
	var body []ast.Stmt
	okName := r.fresh("ok")
	valExpr := ast.Expr(ast.NewIdent("_"))
	tok := token.ASSIGN
	if n.Value != nil {
		if id, ok := n.Value.(*ast.Ident); !ok {
			fatalf("%s: unsupported range value", r.pos(n))
		} else if id.Name != "_" {
			valExpr = id
		}
	}
	tok = token.DEFINE
	body = append(body,
		&ast.AssignStmt{Lhs: []ast.Expr{valExpr, ast.NewIdent(okName)}, Tok: tok,
			Rhs: []ast.Expr{&ast.IndexExpr{X: ast.NewIdent(mName), Index: ast.NewIdent(keyIdent.Name)}}},
		&ast.IfStmt{Cond: &ast.UnaryExpr{Op: token.NOT, X: ast.NewIdent(okName)}, Body: &ast.BlockStmt{List: []ast.Stmt{&ast.BranchStmt{Tok: token.CONTINUE}}}},
	)
	body = append(body, n.Body.List...)
	loop := &ast.RangeStmt{Key: ast.NewIdent("_"), Value: keyIdent, Tok: token.DEFINE,
		X: call(sel("simrt", "MapKeys"), ast.NewIdent(mName)), Body: &ast.BlockStmt{List: body}}
	return &ast.BlockStmt{List: []ast.Stmt{
		&ast.AssignStmt{Lhs: []ast.Expr{ast.NewIdent(mName)}, Tok: token.DEFINE, Rhs: []ast.Expr{n.X}},
		loop,
	}}
}

// gate fails if a rewritten file still contains a construct the simulator does not control.
func gate(path string) {
	fset := token.NewFileSet()
	f, err := parser.ParseFile(fset, path, nil, 0)
	if err != nil {
		fatalf("gate: %v", err)
	}
	for _, is := range f.Imports {
		ip, _ := strconv.Unquote(is.Path.Value)
		if _, bad := importSubst[ip]; bad {
			fatalf("gate: %s still imports %s", path, ip)
		}
	}
	ast.Inspect(f, func(n ast.Node) bool {
		switch x := n.(type) {
		case *ast.GoStmt:
			fatalf("gate: %s: go statement left", fset.Position(x.Pos()))
		case *ast.SelectStmt:
			fatalf("gate: %s: select left", fset.Position(x.Pos()))
		case *ast.SendStmt:
			fatalf("gate: %s: channel send left", fset.Position(x.Pos()))
		case *ast.UnaryExpr:
			if x.Op == token.ARROW {
				fatalf("gate: %s: channel receive left", fset.Position(x.Pos()))
			}
		case *ast.SelectorExpr:
			if id, ok := x.X.(*ast.Ident); ok && id.Obj == nil {
				if id.Name == "time" && (timeFuncs[x.Sel.Name] || timeUnsupported[x.Sel.Name]) {
					fatalf("gate: %s: time.%s left", fset.Position(x.Pos()), x.Sel.Name)
				}
				if id.Name == "runtime" && runtimeFuncs[x.Sel.Name] {
					fatalf("gate: %s: runtime.%s left", fset.Position(x.Pos()), x.Sel.Name)
				}
			}
		}
		return true
	})
}
