// Package stime replaces the nondeterministic functions of "time".
package stime

import (
	"time"

	"verifsim/simrt"
)

func Now() time.Time {
	w := simrt.W
	if w == nil {
		return time.Now()
	}
	simrt.Point(simrt.KClock)
	return time.Unix(0, w.Now)
}

func Since(t time.Time) time.Duration {
	w := simrt.W
	if w == nil {
		return time.Since(t)
	}
	simrt.Point(simrt.KClock)
	return time.Duration(w.Now - t.UnixNano())
}

func Until(t time.Time) time.Duration {
	w := simrt.W
	if w == nil {
		return time.Until(t)
	}
	simrt.Point(simrt.KClock)
	return time.Duration(t.UnixNano() - w.Now)
}

// Sleep under simulation is a yield (otter's non-test code never sleeps on the real clock).
func Sleep(d time.Duration) {
	if simrt.W == nil {
		time.Sleep(d)
		return
	}
	simrt.Yield()
}

// Tick under simulation returns a channel nobody feeds (the harness always supplies Options.Clock).
func Tick(d time.Duration) <-chan time.Time {
	if simrt.W == nil {
		return time.Tick(d)
	}
	return make(chan time.Time, 1)
}

func After(d time.Duration) <-chan time.Time {
	if simrt.W == nil {
		return time.After(d)
	}
	return make(chan time.Time, 1)
}
