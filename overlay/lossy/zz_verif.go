//go:build verif

package lossy

// VerifRingSize returns the fixed number of slots of one ring (the capacity C17 speaks about is
// stripes x this), so that the harness does not mirror the constant.
func VerifRingSize() int { return bufferSize }
