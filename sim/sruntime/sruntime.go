// Package sruntime replaces the scheduling-related functions of "runtime".
package sruntime

import (
	"runtime"

	"verifsim/simrt"
)

func GOMAXPROCS(n int) int {
	if w := simrt.W; w != nil {
		return w.Parallelism
	}
	return runtime.GOMAXPROCS(n)
}

func NumCPU() int {
	if w := simrt.W; w != nil {
		return w.Parallelism
	}
	return runtime.NumCPU()
}

func Gosched() { simrt.Yield() }

// AddCleanup is neutralised under simulation: the GC-driven cleanup goroutine is outside the
// simulator's control and would call into instrumented code.
func AddCleanup[T, S any](ptr *T, cleanup func(S), arg S) runtime.Cleanup {
	if simrt.W != nil || Disabled {
		return runtime.Cleanup{}
	}
	return runtime.AddCleanup(ptr, cleanup, arg)
}

// Disabled turns AddCleanup off for the whole worker process (worker binaries set it at start).
var Disabled bool
