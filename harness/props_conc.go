package zzverif

// Concurrent-engine property specs.

var kvOps = map[string]int{
	"set": 14, "setifabsent": 6, "get": 10, "getentry": 3, "compute": 8, "computeifabsent": 5, "computeifpresent": 5,
	"invalidate": 6, "load": 8,
}

func zeroExcept(m map[string]int) map[string]int {
	out := map[string]int{}
	for _, k := range opKinds {
		out[k] = 0
	}
	for k, v := range m {
		out[k] = v
	}
	return out
}

func concSpec(id string, o *ConcOpts) {
	Props[id] = &PropSpec{ID: id, Conc: o, Engines: []Engine{&concEngine{opts: o}}}
}

func init() {
	// C02: linearizability of the key-value operations; no reachable expiry, no refresh.
	concSpec("C02", &ConcOpts{
		Profile: Profile{Prop: "C02", NoExp: true, NoRef: true, Keys: [2]int{1, 6}},
		OpW:     zeroExcept(kvOps), Tasks: [2]int{2, 4}, OpsPer: [2]int{3, 14}, Prefill: [2]int{0, 8},
		Executors: []string{"default", "sync", "queued"}, Lin: true, Resize: true, TinyP: 5,
	})
	// C04 / C05 / C06: bound, bookkeeping and event accounting at quiescence after CleanUp.
	sizeOps := zeroExcept(map[string]int{"set": 20, "setifabsent": 5, "get": 8, "compute": 6, "computeifabsent": 3, "computeifpresent": 3,
		"invalidate": 6, "load": 4, "setmax": 2, "getmax": 1, "wsize": 1, "invalidateall": 1, "hottest": 1, "coldest": 1, "all": 1, "bulkget": 2})
	concSpec("C04", &ConcOpts{
		Profile: Profile{Prop: "C04", NoRef: true, Keys: [2]int{3, 14}},
		OpW:     sizeOps, Tasks: [2]int{2, 4}, OpsPer: [2]int{6, 30}, Prefill: [2]int{0, 10},
		Executors: []string{"default", "default", "sync", "queued"}, TinyP: 5, Resize: true,
		NonTrivial: func(o *ConcOutcome) bool { return o.Switches > 4 && o.Probes["bounded"] > 0 },
	})
	concSpec("C05", &ConcOpts{
		Profile: Profile{Prop: "C05", NoRef: true, Keys: [2]int{3, 14}},
		OpW:     sizeOps, Tasks: [2]int{2, 4}, OpsPer: [2]int{6, 30}, Prefill: [2]int{0, 10},
		Executors: []string{"default", "default", "sync", "queued"}, TinyP: 5, Resize: true,
		NonTrivial: func(o *ConcOutcome) bool { return o.Switches > 4 },
	})
	c6ops := map[string]int{}
	for k, v := range sizeOps {
		c6ops[k] = v
	}
	c6ops["advance"] = 4 // with expiry configured the clock moves while other operations are in flight
	c6ops["cleanup"] = 2
	concSpec("C06", &ConcOpts{
		Profile: Profile{Prop: "C06", NoRef: true, Keys: [2]int{2, 10}},
		OpW:     c6ops, Tasks: [2]int{2, 4}, OpsPer: [2]int{5, 25}, Prefill: [2]int{0, 8},
		Executors:  []string{"default", "sync", "queued"},
		NonTrivial: func(o *ConcOutcome) bool { return o.Switches > 4 && o.Probes["atomic-events"] > 0 },
	})
	// C08: single flight + termination under loader faults.
	loadOps := zeroExcept(map[string]int{"load": 30, "bulkget": 12, "refresh": 6, "bulkrefresh": 4, "set": 6, "invalidate": 6, "get": 4, "compute": 2})
	concSpec("C08", &ConcOpts{
		Profile: Profile{Prop: "C08", Keys: [2]int{1, 4}},
		OpW:     loadOps, Tasks: [2]int{2, 5}, OpsPer: [2]int{2, 12}, Prefill: [2]int{0, 3},
		Executors: []string{"default", "sync", "queued"}, AllowStall: true, TinyP: 5,
		NonTrivial: func(o *ConcOutcome) bool { return o.Probes["loader-overlap-any"] > 0 || o.Probes["load-waiters"] > 0 },
	})
	// C09: load vs newer write on one or two keys.
	c9 := zeroExcept(map[string]int{"load": 22, "bulkget": 6, "bulkrefresh": 3, "refresh": 6, "set": 12, "setifabsent": 4, "compute": 6, "computeifabsent": 3, "computeifpresent": 3, "invalidate": 10, "get": 8, "advance": 2, "invalidateall": 4})
	concSpec("C09", &ConcOpts{
		Profile: Profile{Prop: "C09", NoExp: true, Keys: [2]int{1, 2}},
		OpW:     c9, Tasks: [2]int{2, 3}, OpsPer: [2]int{2, 8}, Prefill: [2]int{0, 2},
		Executors: []string{"default", "sync", "queued"}, Lin: true, AllowStall: true, StallP: 4,
		NonTrivial: func(o *ConcOutcome) bool {
			return o.Probes["write-while-loader-runs"]+o.Probes["write-between-loader-return-and-install"] > 0
		},
	})
	// C14: default executor, no CleanUp, audit at quiescence.
	c14 := zeroExcept(map[string]int{"set": 24, "setifabsent": 4, "get": 10, "compute": 5, "invalidate": 6, "load": 3, "setmax": 1, "getmax": 1, "wsize": 1, "hottest": 1, "coldest": 1, "invalidateall": 1})
	concSpec("C14", &ConcOpts{
		Profile: Profile{Prop: "C14", NoRef: true, Keys: [2]int{3, 16}},
		OpW:     c14, Tasks: [2]int{2, 5}, OpsPer: [2]int{5, 30}, Prefill: [2]int{0, 6},
		Executors: []string{"default"}, NoCleanup: true, TinyP: 3, WakeDuel: true,
		NonTrivial: func(o *ConcOutcome) bool { return o.Switches > 4 && o.Probes["maintenance-configured"] > 0 },
	})
}
