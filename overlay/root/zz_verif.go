//go:build verif

package otter

// In-package accessors for the verification harness (dropped into a scratch copy only).

import (
	"fmt"
	"math"
	"unsafe"

	"github.com/maypok86/otter/v2/internal/deque"
	"github.com/maypok86/otter/v2/internal/generated/node"
)

// VerifSetBufferSizes overrides the package-level tuning knobs computed in init().
func VerifSetBufferSizes(writeMax uint32, stripedMax int) {
	// the harness's small maxima must stay legal for whatever initial capacity the tree uses
	if writeMax < minWriteBufferSize {
		writeMax = minWriteBufferSize
	}
	maxWriteBufferSize = writeMax
	maxStripedBufferSize = stripedMax
}

func VerifBufferSizes() (uint32, int) { return maxWriteBufferSize, maxStripedBufferSize }

// VerifAudit is a structural audit of a quiescent cache.
type VerifAudit struct {
	DrainStatus     uint32
	WriteBufferSize uint64
	ReadBufferLen   int
	TableNodes      int
	TableSize       int
	TableWeight     uint64
	PolicyWeighted  uint64
	PolicyMaximum   uint64
	WindowWeighted  uint64
	ProtWeighted    uint64
	DequeNodes      int
	DequeWeight     uint64
	WheelNodes      int
	InFlight        int
	Problems        []string
}

func (a *VerifAudit) problem(rule string, format string, args ...any) {
	if len(a.Problems) < 32 {
		a.Problems = append(a.Problems, rule+": "+fmt.Sprintf(format, args...))
	}
}

// VerifAuditCache inspects table, policy deques, timer wheel, buffers and the in-flight call table.
// It takes no locks and must be called at quiescence.
func VerifAuditCache[K comparable, V any](cc *Cache[K, V], nowNano int64) *VerifAudit {
	c := cc.cache
	a := &VerifAudit{DrainStatus: c.drainStatus.Load()}
	if c.withMaintenance {
		a.WriteBufferSize = c.writeBuffer.Size()
		a.ReadBufferLen = c.readBuffer.Len()
	}
	if c.singleflight.isInitialized.Load() {
		a.InFlight = c.singleflight.calls.Size()
	}
	inDeque := map[unsafe.Pointer]uint8{}
	if c.withEviction {
		p := c.evictionPolicy
		a.PolicyWeighted = p.weightedSize
		a.PolicyMaximum = p.maximum
		a.WindowWeighted = p.windowWeightedSize
		a.ProtWeighted = p.mainProtectedWeightedSize
		walk := func(name string, d *deque.Linked[K, V], qt uint8) uint64 {
			var sum uint64
			cnt := 0
			var prev node.Node[K, V]
			for n := range d.All() {
				cnt++
				if cnt > 1_000_000 {
					a.problem("audit.deque-cycle", "%s", name)
					break
				}
				if _, dup := inDeque[n.AsPointer()]; dup {
					a.problem("audit.deque-duplicate", "%s key=%v", name, n.Key())
				}
				inDeque[n.AsPointer()] = qt
				if n.GetQueueType() != qt {
					a.problem("audit.deque-queue-tag", "%s key=%v tag=%d", name, n.Key(), n.GetQueueType())
				}
				if !n.IsAlive() {
					a.problem("audit.deque-node-not-alive", "%s key=%v value=%v", name, n.Key(), n.Value())
				}
				if !node.Equals(n.Prev(), prev) {
					a.problem("audit.deque-prev-link", "%s key=%v", name, n.Key())
				}
				prev = n
				sum += uint64(n.Weight())
			}
			if cnt != d.Len() {
				a.problem("audit.deque-len", "%s len=%d walked=%d", name, d.Len(), cnt)
			}
			a.DequeNodes += cnt
			return sum
		}
		ww := walk("window", p.window, node.InWindowQueue)
		pw := walk("probation", p.probation, node.InMainProbationQueue)
		tw := walk("protected", p.protected, node.InMainProtectedQueue)
		a.DequeWeight = ww + pw + tw
		if p.weightedSize != a.DequeWeight {
			a.problem("audit.weighted-size", "policy=%d deques=%d", p.weightedSize, a.DequeWeight)
		}
		if p.windowWeightedSize != ww {
			a.problem("audit.window-weighted-size", "policy=%d deque=%d", p.windowWeightedSize, ww)
		}
		if p.mainProtectedWeightedSize != tw {
			a.problem("audit.protected-weighted-size", "policy=%d deque=%d", p.mainProtectedWeightedSize, tw)
		}
	}
	inWheel := map[unsafe.Pointer]bool{}
	if c.withExpiration {
		c.expirationPolicy.VerifWalk(func(level, bucket int, n node.Node[K, V]) {
			a.WheelNodes++
			if inWheel[n.AsPointer()] {
				a.problem("audit.wheel-duplicate", "key=%v", n.Key())
			}
			inWheel[n.AsPointer()] = true
			if !n.IsAlive() {
				a.problem("audit.wheel-node-not-alive", "key=%v value=%v", n.Key(), n.Value())
			}
		})
	}
	inTable := map[unsafe.Pointer]bool{}
	c.hashmap.Range(func(n node.Node[K, V]) bool {
		a.TableNodes++
		a.TableWeight += uint64(n.Weight())
		inTable[n.AsPointer()] = true
		if c.withMaintenance && !n.IsAlive() {
			a.problem("audit.table-node-not-alive", "key=%v value=%v", n.Key(), n.Value())
		}
		if c.withEviction {
			if _, ok := inDeque[n.AsPointer()]; !ok {
				a.problem("audit.table-node-unlinked", "key=%v value=%v weight=%d", n.Key(), n.Value(), n.Weight())
			}
		}
		// an entry that never expires (unreachable deadline) need not be scheduled; one with a finite
		// deadline that the wheel does not hold will never be swept
		if c.withExpiration && !inWheel[n.AsPointer()] && n.ExpiresAt() != math.MaxInt64 {
			a.problem("audit.table-node-not-in-wheel", "key=%v value=%v expiresAt=%d", n.Key(), n.Value(), n.ExpiresAt())
		}
		return true
	})
	a.TableSize = c.hashmap.Size()
	if a.TableSize != a.TableNodes {
		a.problem("audit.table-size", "Size()=%d nodes=%d", a.TableSize, a.TableNodes)
	}
	for ptr := range inDeque {
		if !inTable[ptr] {
			n := c.nodeManager.FromPointer(ptr)
			a.problem("audit.deque-node-not-in-table", "key=%v value=%v", n.Key(), n.Value())
		}
	}
	for ptr := range inWheel {
		if !inTable[ptr] {
			n := c.nodeManager.FromPointer(ptr)
			a.problem("audit.wheel-node-not-in-table", "key=%v value=%v", n.Key(), n.Value())
		}
	}
	_ = nowNano
	return a
}

// VerifDrainStatus returns the raw drain status (0 idle, 1 required, 2/3 processing).
func VerifDrainStatus[K comparable, V any](cc *Cache[K, V]) uint32 {
	return cc.cache.drainStatus.Load()
}

// VerifRawEntries lists every node physically in the table (alive or not, expired or not).
func VerifRawEntries[K comparable, V any](cc *Cache[K, V]) []Entry[K, V] {
	var out []Entry[K, V]
	c := cc.cache
	c.hashmap.Range(func(n node.Node[K, V]) bool {
		out = append(out, c.nodeToEntry(n, 0))
		return true
	})
	return out
}

// VerifSketch exposes the frequency sketch for C18.
type VerifSketch[K comparable] struct{ s *sketch[K] }

func VerifNewSketch[K comparable]() *VerifSketch[K] { return &VerifSketch[K]{s: newSketch[K]()} }
func (v *VerifSketch[K]) EnsureCapacity(n uint64)   { v.s.ensureCapacity(n) }
func (v *VerifSketch[K]) Increment(k K)             { v.s.increment(k) }
func (v *VerifSketch[K]) Frequency(k K) uint64      { return v.s.frequency(k) }
func (v *VerifSketch[K]) Reset()                    { v.s.reset() }
func (v *VerifSketch[K]) SampleSize() uint64        { return v.s.sampleSize }
func (v *VerifSketch[K]) Size() uint64              { return v.s.size }
func (v *VerifSketch[K]) TableLen() int             { return len(v.s.table) }
func (v *VerifSketch[K]) IsNotInitialized() bool    { return v.s.isNotInitialized() }

// VerifAdmit runs the real admission decision on a policy whose sketch was fed by the caller.
type VerifPolicy[K comparable, V any] struct{ p *policy[K, V] }

func VerifNewPolicy[K comparable, V any](rand func() uint32) *VerifPolicy[K, V] {
	p := newPolicy[K, V](false)
	p.rand = rand
	return &VerifPolicy[K, V]{p: p}
}
func (v *VerifPolicy[K, V]) Sketch() *VerifSketch[K]        { return &VerifSketch[K]{s: v.p.sketch} }
func (v *VerifPolicy[K, V]) Admit(candidate, victim K) bool { return v.p.admit(candidate, victim) }

// --- admission at cache level (C18) ---

// VerifPinRand makes the random admission of warm candidates never fire, so that admission is a
// function of the frequency estimates alone.
func VerifPinRand[K comparable, V any](cc *Cache[K, V]) {
	if cc.cache.withEviction {
		cc.cache.evictionPolicy.rand = func() uint32 { return 1 }
	}
}

// VerifQueues returns, for every node linked in the eviction policy, the queue it is in
// (0 window, 1 probation, 2 protected).
func VerifQueues[K comparable, V any](cc *Cache[K, V]) map[K]int {
	out := map[K]int{}
	c := cc.cache
	if !c.withEviction {
		return out
	}
	p := c.evictionPolicy
	for n := range p.window.All() {
		out[n.Key()] = 0
	}
	for n := range p.probation.All() {
		out[n.Key()] = 1
	}
	for n := range p.protected.All() {
		out[n.Key()] = 2
	}
	return out
}

// VerifFrequency returns the sketch estimate of key (and whether tracking is enabled, and the
// sketch's additions counter, which drops when an aging step ran).
func VerifFrequency[K comparable, V any](cc *Cache[K, V], key K) (freq uint64, enabled bool, size uint64) {
	c := cc.cache
	if !c.withEviction {
		return 0, false, 0
	}
	s := c.evictionPolicy.sketch
	return s.frequency(key), !s.isNotInitialized(), s.size
}

// VerifEvictionMutex returns the address of the eviction lock (the harness brackets maintenance
// passes with it).
func VerifEvictionMutex[K comparable, V any](cc *Cache[K, V]) unsafe.Pointer {
	return unsafe.Pointer(&cc.cache.evictionMutex)
}

// VerifPolicyNode is one node linked in the eviction policy (a key can have two for a moment: the
// replaced node whose update event has not been replayed yet, and its successor).
type VerifPolicyNode[K comparable, V any] struct {
	Key    K
	Queue  int // 0 window, 1 probation, 2 protected
	Weight uint32
	Value  V
	Alive  bool
}

// VerifPolicyNodes lists every node linked in the eviction policy, queue by queue in queue order.
// Call it only while holding the eviction lock (or at quiescence).
func VerifPolicyNodes[K comparable, V any](cc *Cache[K, V]) []VerifPolicyNode[K, V] {
	var out []VerifPolicyNode[K, V]
	c := cc.cache
	if !c.withEviction {
		return out
	}
	p := c.evictionPolicy
	for n := range p.window.All() {
		out = append(out, VerifPolicyNode[K, V]{n.Key(), 0, n.Weight(), n.Value(), n.IsAlive()})
	}
	for n := range p.probation.All() {
		out = append(out, VerifPolicyNode[K, V]{n.Key(), 1, n.Weight(), n.Value(), n.IsAlive()})
	}
	for n := range p.protected.All() {
		out = append(out, VerifPolicyNode[K, V]{n.Key(), 2, n.Weight(), n.Value(), n.IsAlive()})
	}
	return out
}

// VerifTableStats: how often the cache's key index grew and shrank, and its current number of root buckets.
func VerifTableStats[K comparable, V any](cc *Cache[K, V]) (growths, shrinks, buckets int) {
	g, s := cc.cache.hashmap.VerifResizes()
	return g, s, cc.cache.hashmap.VerifTableLen()
}
