package zzverif

import (
	"math"
	"strconv"

	otter "github.com/maypok86/otter/v2"
	"verifsim/simrt"
)

type sketchStructKey struct {
	A int
	B string
}

// runSketch dispatches on the key type (CompCase.KeyKind): the estimate of a key must count every
// recording of an *equal* key, whatever its representation - strings built afresh for every call,
// struct keys, and float keys where +0.0 and -0.0 are one key with two bit patterns.
func (cr *compRun) runSketch() {
	switch cr.cc.KeyKind {
	case 1:
		runSketchOn(cr, func(k, nth int) string { return strconv.Itoa(k*7) + "/" + strconv.Itoa(nth*0) })
	case 2:
		runSketchOn(cr, func(k, nth int) float64 {
			if k == 0 && nth%2 == 1 {
				return math.Copysign(0, -1)
			}
			return float64(k) * 0.5
		})
	case 3:
		runSketchOn(cr, func(k, nth int) sketchStructKey { return sketchStructKey{A: k, B: "k" + strconv.Itoa(k)} })
	default:
		runSketchOn(cr, func(k, nth int) int { return k })
	}
}

// runSketch (C18): one task. Task 0 holds the recording program:
//
//	cap n   - ensureCapacity(n)
//	inc k   - record key k (N times)
//	admit   - admission decisions on a fresh policy whose sketch is fed to chosen frequencies
//
// Hash seeds come from the run's hash stream (HashMode 1: adversarial, heavy collisions).
func runSketchOn[K comparable](cr *compRun, mk func(k, nth int) K) {
	cc := cr.cc
	s := otter.VerifNewSketch[K]()
	nth := 0 // alternates the representation of a key between calls
	key := func(k int) K { nth++; return mk(k, nth) }
	counts := map[int]int{} // recordings in the current sampling period
	tracked := []int{}
	tableLen := 0
	checkAll := func(where string) {
		for _, k := range tracked {
			f := s.Frequency(key(k))
			want := counts[k]
			if want > 15 {
				want = 15
			}
			if f > 15 {
				cr.fail(P("C18"), "sketch.over-15", k, "%s: estimate of key %d is %d > 15", where, k, f)
			}
			if int(f) < want {
				cr.fail(P("C18"), "sketch.under-count", k, "%s: key %d was recorded %d times in this period but its estimate is %d (table %d, hash mode %d)", where, k, counts[k], f, s.TableLen(), cc.HashMode)
			}
		}
	}
	for _, op := range cc.Tasks[0] {
		switch op.Kind {
		case "cap":
			before := s.TableLen()
			s.EnsureCapacity(uint64(op.N))
			if s.TableLen() != before {
				// a new table starts a new period with all counters zero
				counts = map[int]int{}
				tableLen = s.TableLen()
				cr.probe["sketch-resized"]++
				for _, k := range tracked {
					if f := s.Frequency(key(k)); f != 0 {
						cr.fail(P("C18"), "sketch.nonzero-after-resize", k, "estimate of key %d is %d right after the table was replaced", k, f)
					}
				}
			}
		case "inc":
			for i := 0; i < op.N; i++ {
				if s.IsNotInitialized() {
					s.Increment(key(op.K))
					if f := s.Frequency(key(op.K)); f != 0 {
						cr.fail(P("C18"), "sketch.nonzero-before-enable", op.K, "estimate of key %d is %d before frequency tracking was enabled", op.K, f)
					}
					cr.probe["sketch-inc-before-enable"]++
					continue
				}
				known := false
				for _, k := range tracked {
					if k == op.K {
						known = true
					}
				}
				if !known {
					tracked = append(tracked, op.K)
				}
				before := map[int]uint64{}
				for _, k := range tracked {
					before[k] = s.Frequency(key(k))
				}
				sizeBefore := s.Size()
				s.Increment(key(op.K))
				cr.probe["sketch-increments"]++
				if s.Size() < sizeBefore {
					// aging step: every estimate is halved (the recorded key was incremented first)
					cr.probe["sketch-resets"]++
					for _, k := range tracked {
						f := s.Frequency(key(k))
						lo, hi := before[k]/2, (min64(before[k]+1, 15))/2
						if k == op.K {
							lo = hi
						}
						if f < lo || f > hi {
							cr.fail(P("C18"), "sketch.reset-not-halving", k, "aging: estimate of key %d went from %d to %d (expected %d..%d)", k, before[k], f, lo, hi)
						}
					}
					for k := range counts {
						counts[k] = 0
					}
					// estimates after aging are still upper-bounded by 15 and periods restart
					continue
				}
				counts[op.K]++
				if f := s.Frequency(key(op.K)); f < min64(before[op.K]+1, 15) {
					cr.fail(P("C18"), "sketch.increment-lost", op.K, "recording key %d did not raise its estimate: %d -> %d", op.K, before[op.K], f)
				}
				checkAll("after increment")
			}
		case "admit":
			cr.admitCheck(op)
		}
	}
	checkAll("end")
	_ = tableLen
	cr.out.NonTrivial = cr.probe["sketch-increments"] > 10
}

func min64(a, b uint64) uint64 {
	if a < b {
		return a
	}
	return b
}

// admitCheck: candidate key 1 recorded op.K times, victim key 2 recorded op.V times, then the real
// admit is asked with op.N random values from the fast-rand stream (plus the values that hit the
// jitter branch exactly).
func (cr *compRun) admitCheck(op COp) {
	var next uint32
	p := otter.VerifNewPolicy[int, int](func() uint32 { return next })
	sk := p.Sketch()
	sk.EnsureCapacity(64)
	for i := 0; i < op.K; i++ {
		sk.Increment(1)
	}
	for i := 0; i < op.V; i++ {
		sk.Increment(2)
	}
	cf, vf := sk.Frequency(1), sk.Frequency(2)
	admitted := 0
	trials := 0
	try := func(r uint32) {
		next = r
		a := p.Admit(1, 2)
		trials++
		if a {
			admitted++
		}
		switch {
		case cf > vf && !a:
			cr.fail(P("C18"), "admit.rejected-more-popular", -1, "candidate estimate %d > victim estimate %d but it was rejected (rand %d)", cf, vf, r)
		case cf <= vf && cf < 6 && a:
			cr.fail(P("C18"), "admit.admitted-less-popular", -1, "candidate estimate %d <= victim estimate %d and below 6 but it was admitted (rand %d)", cf, vf, r)
		}
	}
	for i := 0; i < op.N; i++ {
		try(uint32(cr.w.FastRng.Uint64()))
	}
	for _, r := range []uint32{0, 128, 127, 1 << 31, ^uint32(0), 256} {
		try(r)
		trials--
		if next == r && false {
			admitted--
		}
	}
	cr.probe["admit-trials"] += trials
	if cf <= vf && cf >= 6 {
		cr.probe["admit-jitter-branch"]++
		// "rare": at most 1/16 of uniformly drawn random values (plus the 3 crafted hits above)
		if op.N >= 256 && (admitted-3)*16 > op.N {
			cr.fail(P("C18"), "admit.jitter-not-rare", -1, "a warm but not more popular candidate (%d vs %d) was admitted %d times in %d uniform trials", cf, vf, admitted-3, op.N)
		}
	}
}

func genSketchCase(rng *simrt.Rng) *CompCase {
	cc := &CompCase{Kind: "sketch", Parallelism: 1}
	if rng.Intn(3) == 0 {
		cc.HashMode = 1
	}
	if rng.Intn(2) == 0 {
		cc.KeyKind = 1 + rng.Intn(3)
	}
	var ops []COp
	if rng.Intn(4) == 0 {
		// recordings before the sketch is enabled
		for i := 0; i < 1+rng.Intn(5); i++ {
			ops = append(ops, COp{Kind: "inc", K: rng.Intn(10), N: 1 + rng.Intn(3)})
		}
	}
	caps := []int{1, 2, 3, 5, 7, 8, 10, 16, 17, 33, 64, 100, 129, 500}
	ops = append(ops, COp{Kind: "cap", N: caps[rng.Intn(len(caps))]})
	nkeys := 1 + rng.Intn(40)
	n := 5 + rng.Intn(120)
	for i := 0; i < n; i++ {
		switch x := rng.Intn(100); {
		case x < 4:
			ops = append(ops, COp{Kind: "cap", N: caps[rng.Intn(len(caps))] * (1 + rng.Intn(3))})
		case x < 10:
			ops = append(ops, COp{Kind: "admit", K: rng.Intn(20), V: rng.Intn(20), N: []int{8, 32, 256, 512}[rng.Intn(4)]})
		case x < 30:
			ops = append(ops, COp{Kind: "inc", K: rng.Intn(nkeys), N: 1 + rng.Intn(20)}) // a hot key
		default:
			ops = append(ops, COp{Kind: "inc", K: rng.Intn(nkeys), N: 1 + rng.Intn(3)})
		}
	}
	cc.Tasks = [][]COp{ops}
	return cc
}
