// Package smaphash replaces "hash/maphash": seeds come from the run's hash stream so that bucket
// placement and sketch counters are reproducible; HashMode 1 produces heavy bucket collisions.
package smaphash

import (
	"fmt"
	"hash/maphash"

	"verifsim/simrt"
)

type Seed struct {
	s   maphash.Seed
	sim uint64
	on  bool
	col bool
}

func MakeSeed() Seed {
	if w := simrt.W; w != nil {
		w.HashSeq = simrt.Mix(w.HashSeq, 0x51ed)
		return Seed{sim: w.HashSeq, on: true, col: w.HashMode == 1}
	}
	return Seed{s: maphash.MakeSeed()}
}

func Comparable[T comparable](seed Seed, v T) uint64 {
	if !seed.on {
		return maphash.Comparable(seed.s, v)
	}
	var h uint64
	switch x := any(v).(type) {
	case int:
		h = simrt.Mix(seed.sim, uint64(x))
	case int64:
		h = simrt.Mix(seed.sim, uint64(x))
	case uint64:
		h = simrt.Mix(seed.sim, x)
	case uint32:
		h = simrt.Mix(seed.sim, uint64(x))
	case int32:
		h = simrt.Mix(seed.sim, uint64(x))
	case string:
		h = simrt.Mix(seed.sim, simrt.HashString(x))
	default:
		h = simrt.Mix(seed.sim, simrt.HashString(fmt.Sprintf("%#v", v)))
	}
	if seed.col {
		// keep h2 (low 7 bits) varied but squeeze h1 into 2 values: long bucket chains.
		h = (h & 0x7f) | ((h >> 20 & 1) << 7)
	}
	return h
}

func String(seed Seed, s string) uint64 { return Comparable(seed, s) }
func Bytes(seed Seed, b []byte) uint64  { return Comparable(seed, string(b)) }
