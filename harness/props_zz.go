package zzverif

import "verifsim/simrt"

// Concurrent halves of properties whose first engine is sequential. This file sorts after
// props_seq.go so that its init runs once the sequential specs exist.
func init() {
	// C20 (concurrent half): totals and bounds at quiescence with a stats recorder attached.
	c20 := &ConcOpts{
		Profile: Profile{Prop: "C20", Stats: true, NoRef: true, Keys: [2]int{2, 8}},
		OpW:     zeroExcept(map[string]int{"set": 10, "get": 14, "getentry": 4, "load": 12, "bulkget": 5, "compute": 6, "computeifabsent": 4, "computeifpresent": 4, "invalidate": 5, "getquiet": 2, "refresh": 1}),
		Tasks:   [2]int{2, 4}, OpsPer: [2]int{5, 25}, Prefill: [2]int{0, 6},
		Executors:  []string{"default", "sync", "queued"},
		NonTrivial: func(o *ConcOutcome) bool { return o.Switches > 4 && o.Probes["loader-calls"] > 0 },
	}
	Props["C20"].Engines = append(Props["C20"].Engines, &concEngine{opts: c20})
	Props["C20"].Conc = c20
	// C13 (concurrent half): writes sample the clock, maintenance runs at later clock values.
	c13 := &ConcOpts{
		Ticker: true, AimAdvance: true,
		Profile: Profile{Prop: "C13", ForceExp: true, NoCustomExp: true, AccessBias: true, NoRef: true, Keys: [2]int{2, 10}},
		OpW:     zeroExcept(map[string]int{"set": 26, "setifabsent": 4, "get": 8, "compute": 4, "invalidate": 4, "advance": 14, "cleanup": 6, "load": 3}),
		Tasks:   [2]int{2, 4}, OpsPer: [2]int{4, 20}, Prefill: [2]int{0, 4},
		Executors: []string{"default", "queued", "sync"}, SweepCheck: true,
		NonTrivial: func(o *ConcOutcome) bool {
			return o.Switches > 4 && o.Probes["sweep-entries-examined"]+o.Probes["sweep-expiration-events"] > 0
		},
	}
	Props["C13"].Engines = append(Props["C13"].Engines, &concEngine{opts: c13})
	Props["C13"].Conc = c13
	// C11 (concurrent half): stale reads hand a reload to an asynchronous executor.
	c11 := &ConcOpts{
		Profile: Profile{Prop: "C11", ForceRef: true, NoExp: true, Keys: [2]int{1, 4}},
		OpW:     zeroExcept(map[string]int{"load": 30, "get": 10, "set": 8, "invalidate": 4, "advance": 16, "refresh": 12, "bulkrefresh": 3, "setrefreshable": 3}),
		Tasks:   [2]int{2, 4}, OpsPer: [2]int{4, 16}, Prefill: [2]int{1, 4}, TinyP: 3,
		Executors: []string{"default", "queued"}, Lin: true, AllowStall: true, StallP: 5,
		NonTrivial: func(o *ConcOutcome) bool { return o.Probes["refresh-triggering-gets"] > 0 },
	}
	Props["C11"].Engines = append(Props["C11"].Engines, &concEngine{opts: c11})
	Props["C11"].Conc = c11
	// C06 (sequential half): exactly-once accounting and causes per step, including writes over
	// expired-but-unswept entries (the concurrent runs rarely move the clock).
	Props["C06"].Engines = append(Props["C06"].Engines, &seqEngine{
		profile: Profile{Prop: "C06", Executor: []string{"sync"},
			OpW: w(defaultOpW, map[string]int{"set": 18, "setifabsent": 10, "compute": 8, "computeifabsent": 6, "invalidate": 8, "invalidateall": 2, "advance": 16, "cleanup": 5})},
		nontrivial: func(o *SeqOutcome) bool {
			g, _ := probeSum(o, "op:", "@expired-unswept")
			return g > 0 || o.Probes["auto-overflow"] > 0 || o.Probes["auto-expiration"] > 0
		},
	})
	// C18 (cache level): admission decisions of the real eviction run, random admission pinned off.
	Props["C18"].Engines = append(Props["C18"].Engines, &seqEngine{
		admission: true,
		profile: Profile{Prop: "C18", Executor: []string{"sync"}, NoExp: true, NoRef: true, BoundOnly: true, MidBound: true, Keys: [2]int{6, 40}, MinOps: 40, MaxOps: 400,
			OpW: map[string]int{"set": 30, "get": 45, "compute": 6, "setifabsent": 6, "computeifabsent": 4, "invalidate": 3, "getentry": 4,
				"getquiet": 0, "computeifpresent": 2, "invalidateall": 0, "setexpires": 0, "setrefreshable": 0, "load": 3, "bulkget": 0, "refresh": 0, "bulkrefresh": 0,
				"all": 0, "keys": 0, "values": 0, "hottest": 1, "coldest": 1, "setmax": 3, "getmax": 0, "wsize": 0, "esize": 0, "cleanup": 1, "stats": 0, "advance": 0, "runexec": 0}},
		nontrivial: func(o *SeqOutcome) bool { return o.Probes["admission-decisions-checked"] > 0 },
	})
	// C03 (concurrent form): rounds separated by barriers at which the clock moves onto / around the
	// deadlines; per-key histories against the map with deadlines.
	c03 := &ConcOpts{
		Profile: Profile{Prop: "C03", ForceExp: true, NoCustomExp: true, NoRef: true, Keys: [2]int{1, 4}},
		OpW: zeroExcept(map[string]int{"set": 14, "setifabsent": 8, "get": 14, "getentry": 3, "getquiet": 3, "compute": 8, "computeifabsent": 5, "computeifpresent": 5,
			"invalidate": 6, "setexpires": 4, "cleanup": 2, "all": 3, "keys": 2, "values": 2, "hottest": 2, "coldest": 2}),
		Tasks: [2]int{2, 4}, OpsPer: [2]int{4, 18}, Prefill: [2]int{0, 4},
		Executors: []string{"default", "sync", "queued"}, Rounds: true,
		NonTrivial: func(o *ConcOutcome) bool { return o.Overlaps > 0 && o.Probes["barrier-clock-advances"] > 0 },
	}
	Props["C03"].Engines = append(Props["C03"].Engines, &concEngine{opts: c03})
	Props["C03"].Conc = c03
	// C06 with expiry and a moving clock: operations sample the clock when they start, other tasks
	// advance it meanwhile (reads near a deadline race with writes and sweeps).
	c06exp := &ConcOpts{
		Duel:   true,
		Ticker: true, AimAdvance: true,
		Profile: Profile{Prop: "C06", ForceExp: true, NoRef: true, Keys: [2]int{1, 5}},
		OpW:     zeroExcept(map[string]int{"set": 24, "setifabsent": 6, "get": 12, "compute": 5, "computeifabsent": 3, "computeifpresent": 3, "invalidate": 5, "advance": 14, "cleanup": 5, "load": 3, "setexpires": 2}),
		Tasks:   [2]int{2, 4}, OpsPer: [2]int{4, 20}, Prefill: [2]int{0, 4},
		Executors:  []string{"default", "queued", "sync"},
		NonTrivial: func(o *ConcOutcome) bool { return o.Switches > 4 && o.Probes["atomic-events:Expiration"] > 0 },
	}
	Props["C06"].Engines = append(Props["C06"].Engines, &concEngine{opts: c06exp})
	// C05 / C04 / C14 with expiry and a moving clock: the timer wheel, reads that move deadlines and
	// writers race; the audit then compares table, eviction policy and wheel.
	expOps := zeroExcept(map[string]int{"set": 22, "setifabsent": 6, "get": 12, "getentry": 2, "compute": 5, "computeifabsent": 3, "computeifpresent": 3,
		"invalidate": 5, "advance": 12, "cleanup": 4, "load": 3, "setexpires": 3, "setmax": 1, "invalidateall": 1, "hottest": 1, "coldest": 1, "bulkget": 1})
	c05exp := &ConcOpts{
		Duel:   true,
		Ticker: true, AimAdvance: true,
		Profile: Profile{Prop: "C05", ForceExp: true, NoRef: true, Keys: [2]int{2, 10}},
		OpW:     expOps, Tasks: [2]int{2, 4}, OpsPer: [2]int{4, 22}, Prefill: [2]int{0, 6},
		Executors:  []string{"default", "queued", "sync"},
		NonTrivial: func(o *ConcOutcome) bool { return o.Switches > 4 && o.Probes["atomic-events:Expiration"] > 0 },
	}
	Props["C05"].Engines = append(Props["C05"].Engines, &concEngine{opts: c05exp})
	c04exp := &ConcOpts{
		Duel:   true,
		Ticker: true, AimAdvance: true,
		Profile: Profile{Prop: "C04", ForceExp: true, BoundOnly: true, NoRef: true, Keys: [2]int{3, 12}},
		OpW:     expOps, Tasks: [2]int{2, 4}, OpsPer: [2]int{4, 22}, Prefill: [2]int{0, 8},
		Executors: []string{"default", "queued", "sync"},
		NonTrivial: func(o *ConcOutcome) bool {
			return o.Switches > 4 && o.Probes["bounded"] > 0 && o.Probes["atomic-events"] > 0
		},
	}
	Props["C04"].Engines = append(Props["C04"].Engines, &concEngine{opts: c04exp})
	c14ops := map[string]int{}
	for k, v := range expOps {
		c14ops[k] = v
	}
	c14ops["cleanup"] = 0
	c14exp := &ConcOpts{
		Profile: Profile{Prop: "C14", ForceExp: true, NoRef: true, Keys: [2]int{2, 12}},
		OpW:     c14ops, Tasks: [2]int{2, 5}, OpsPer: [2]int{4, 24}, Prefill: [2]int{0, 6},
		Executors: []string{"default"}, NoCleanup: true, TinyP: 3, WakeDuel: true,
		NonTrivial: func(o *ConcOutcome) bool { return o.Switches > 4 && o.Probes["maintenance-configured"] > 0 },
	}
	Props["C14"].Engines = append(Props["C14"].Engines, &concEngine{opts: c14exp})
	// C02 with an asynchronously moving clock: tasks advance the clock while operations of
	// other tasks are in flight (stale clock samples, reads that move deadlines, sweeps); per-key
	// histories against the map with deadline intervals.
	c03async := &ConcOpts{
		Ticker: true, AimAdvance: true,
		Profile: Profile{Prop: "C03", ForceExp: true, NoCustomExp: true, NoRef: true, Keys: [2]int{1, 3}},
		OpW: zeroExcept(map[string]int{"set": 14, "setifabsent": 9, "get": 16, "getentry": 3, "getquiet": 2, "compute": 7, "computeifabsent": 5, "computeifpresent": 5,
			"invalidate": 5, "setexpires": 2, "cleanup": 3, "advance": 12}),
		Tasks: [2]int{2, 4}, OpsPer: [2]int{3, 14}, Prefill: [2]int{0, 3},
		Executors: []string{"default", "sync", "queued"}, AsyncClock: true,
		NonTrivial: func(o *ConcOutcome) bool { return o.Overlaps > 0 && o.SimTime > 0 },
	}
	// This engine belongs to C02 (linearizability with expiration; C02's first engine keeps expiry out
	// of reach). C03 quantifies over interleavings "in which the clock only moves between
	// operations", which is what its rounds engine does, so it does not run this one.
	c02async := *c03async
	c02async.Profile.Prop = "C02"
	Props["C02"].Engines = append(Props["C02"].Engines, &concEngine{opts: &c02async})
	// C20 / C08 with expiry and a moving clock: lookups of expired-but-unswept entries are misses,
	// expirations count as evictions, loads race the timer wheel.
	c20exp := *c20
	c20exp.Profile = Profile{Prop: "C20", Stats: true, ForceExp: true, NoRef: true, Keys: [2]int{2, 8}}
	c20exp.OpW = zeroExcept(map[string]int{"set": 10, "get": 14, "getentry": 4, "load": 10, "bulkget": 4, "compute": 6, "computeifabsent": 4, "computeifpresent": 4,
		"invalidate": 4, "getquiet": 2, "advance": 10, "cleanup": 3, "setexpires": 2})
	c20exp.Ticker, c20exp.AimAdvance = true, true
	c20exp.NonTrivial = func(o *ConcOutcome) bool { return o.Switches > 4 && o.Probes["atomic-events:Expiration"] > 0 }
	Props["C20"].Engines = append(Props["C20"].Engines, &concEngine{opts: &c20exp})
	// C20 with refresh: reloads run on the executor while clients replace / invalidate the entry;
	// no background work may touch the lookup counters, every reload is a counted load.
	c20ref := *c20
	c20ref.Profile = Profile{Prop: "C20", Stats: true, ForceRef: true, Keys: [2]int{1, 5}}
	c20ref.OpW = zeroExcept(map[string]int{"set": 10, "get": 12, "getentry": 3, "load": 16, "bulkget": 5, "compute": 4, "computeifabsent": 2, "computeifpresent": 2,
		"invalidate": 6, "getquiet": 2, "advance": 14, "refresh": 4, "bulkrefresh": 2, "setrefreshable": 2})
	c20ref.Executors = []string{"default", "queued", "queued"}
	c20ref.AllowStall, c20ref.StallP = true, 6
	c20ref.NonTrivial = func(o *ConcOutcome) bool { return o.Switches > 4 && o.Probes["loader-calls"] > 0 }
	Props["C20"].Engines = append(Props["C20"].Engines, &concEngine{opts: &c20ref})
	c08exp := *Props["C08"].Conc
	c08exp.Profile = Profile{Prop: "C08", ForceExp: true, Keys: [2]int{1, 4}}
	c08exp.OpW = zeroExcept(map[string]int{"load": 28, "bulkget": 10, "refresh": 5, "bulkrefresh": 3, "set": 6, "invalidate": 5, "get": 5, "compute": 2, "advance": 10, "cleanup": 3})
	c08exp.Ticker, c08exp.AimAdvance = true, true
	Props["C08"].Engines = append(Props["C08"].Engines, &concEngine{opts: &c08exp})
	// C15 (cache level): All / Keys / Values traverse the key index while other tasks insert, update,
	// remove and the table grows or shrinks; weakly consistent iteration rules of conc_iter.go.
	// Without expiry, and with a write- or access-reset lifetime (clock moving only at barriers).
	c15ops := zeroExcept(map[string]int{"set": 16, "setifabsent": 4, "compute": 6, "computeifabsent": 3, "computeifpresent": 3, "invalidate": 10, "get": 4,
		"all": 8, "keys": 6, "values": 4, "hottest": 2, "coldest": 2, "invalidateall": 1})
	c15 := &ConcOpts{
		Profile: Profile{Prop: "C15", NoExp: true, NoRef: true, Keys: [2]int{2, 10}},
		OpW:     c15ops, Tasks: [2]int{2, 4}, OpsPer: [2]int{3, 14}, Prefill: [2]int{0, 8},
		Executors: []string{"default", "sync", "queued"}, Resize: true,
		NonTrivial: func(o *ConcOutcome) bool {
			return o.Switches > 2 && o.Probes["conc-iter:all"]+o.Probes["conc-iter:keys"]+o.Probes["conc-iter:values"] > 0
		},
	}
	Props["C15"].Engines = append(Props["C15"].Engines, &concEngine{opts: c15})
	Props["C15"].Conc = c15
	c15exp := *c15
	c15exp.Profile = Profile{Prop: "C15", ForceExp: true, NoCustomExp: true, NoRef: true, Keys: [2]int{2, 8}}
	c15exp.Rounds, c15exp.Resize = true, false
	Props["C15"].Engines = append(Props["C15"].Engines, &concEngine{opts: &c15exp})
	// ... and with the clock moving at any time (also while a slow consumer is inside its loop body)
	// and value-dependent lifetimes: an element must not be yielded once the clock had certainly
	// passed its deadline before the traversal looked at it.
	c15async := *c15
	c15async.Profile = Profile{Prop: "C15", ForceExp: true, NoRef: true, Keys: [2]int{2, 6}}
	c15async.OpW = zeroExcept(map[string]int{"set": 18, "setifabsent": 3, "compute": 4, "invalidate": 5, "get": 6, "advance": 12, "cleanup": 2,
		"all": 8, "keys": 4, "values": 4, "hottest": 2, "coldest": 2})
	c15async.Resize, c15async.AimAdvance, c15async.IterDuel = false, true, true
	Props["C15"].Engines = append(Props["C15"].Engines, &concEngine{opts: &c15async})
	// C10 (concurrent half): loads, bulk loads and waiters on one to three keys; what a Get or
	// BulkGet returns is cached when it returns (linearizability with the finished-load rule for
	// waiters, BulkGet result rules, failed loads leave nothing behind).
	c10 := &ConcOpts{
		Profile: Profile{Prop: "C10", NoExp: true, NoRef: true, Keys: [2]int{1, 3}},
		OpW:     zeroExcept(map[string]int{"load": 30, "bulkget": 14, "get": 16, "getentry": 3, "set": 5, "invalidate": 5, "compute": 2}),
		Tasks:   [2]int{2, 4}, OpsPer: [2]int{2, 10}, Prefill: [2]int{0, 2},
		Executors: []string{"default", "sync", "queued"}, Lin: true, AllowStall: true, StallP: 6,
		NonTrivial: func(o *ConcOutcome) bool {
			return o.Probes["load-waiters"]+o.Probes["conc-bulkget-results-checked"] > 0
		},
	}
	Props["C10"].Engines = append(Props["C10"].Engines, &concEngine{opts: c10})
	Props["C10"].Conc = c10
	// C16 (cache level): writers fill a tiny write buffer while maintenance is slow or queued, so that
	// offers are refused and the refused writer runs the maintenance itself; every producer's events
	// must still be consumed in that producer's order (conc_order.go), and nothing may be forgotten
	// (audit at quiescence).
	c16 := &ConcOpts{
		Profile: Profile{Prop: "C16", NoRef: true, Keys: [2]int{1, 6}, TinyWriteBuf: true},
		// ordered traversals hold the eviction lock while their loop body runs: writers then find the
		// buffer full for all their retries and take the help-out path (afterWriteTask -> performCleanUp)
		OpW:   zeroExcept(map[string]int{"set": 44, "setifabsent": 4, "compute": 8, "invalidate": 10, "get": 6, "computeifpresent": 3, "hottest": 3, "coldest": 3, "setmax": 1, "invalidateall": 2}),
		Tasks: [2]int{1, 5}, OpsPer: [2]int{8, 40}, Prefill: [2]int{0, 4},
		Executors: []string{"sync", "queued", "queued", "default"},
		NonTrivial: func(o *ConcOutcome) bool {
			return o.Probes["producer-order-notifications-checked"] > 1 || o.Switches > 4
		},
	}
	Props["C16"].Engines = append(Props["C16"].Engines, &concEngine{opts: c16})
	Props["C16"].Conc = c16
	// C13 / C05 with expiry AND refresh: reloads are in flight (stalled, failing, succeeding) while
	// deadlines pass and the timer wheel sweeps; afterwards the sweep must be clean and table,
	// eviction policy and wheel must agree.
	c13ref := *c13
	c13ref.Profile = Profile{Prop: "C13", ForceExp: true, ForceRef: true, NoCustomExp: true, Keys: [2]int{1, 5}}
	c13ref.OpW = zeroExcept(map[string]int{"load": 26, "set": 10, "get": 6, "invalidate": 3, "advance": 18, "cleanup": 6, "refresh": 4, "bulkget": 3})
	c13ref.AllowStall, c13ref.StallP = true, 4
	c13ref.Duel = false
	c13ref.Executors = []string{"default", "queued", "queued"}
	Props["C13"].Engines = append(Props["C13"].Engines, &concEngine{opts: &c13ref})
	c05ref := *c05exp
	c05ref.Profile = Profile{Prop: "C05", ForceExp: true, ForceRef: true, Keys: [2]int{1, 6}}
	c05ref.OpW = c13ref.OpW
	c05ref.AllowStall, c05ref.StallP = true, 4
	c05ref.Duel = false
	c05ref.Executors = []string{"default", "queued", "queued"}
	Props["C05"].Engines = append(Props["C05"].Engines, &concEngine{opts: &c05ref})
	// C18 (cache level, concurrent): every displacement of a main-region entry is judged at the
	// moment it happens, against the estimates the eviction loop looked up (conc_admit.go), while
	// other tasks write, read and invalidate.
	c18 := &ConcOpts{
		Admission: true,
		Profile:   Profile{Prop: "C18", NoExp: true, NoRef: true, BoundOnly: true, MidBound: true, Keys: [2]int{6, 24}},
		OpW: zeroExcept(map[string]int{"set": 30, "get": 40, "setifabsent": 4, "compute": 4, "computeifabsent": 3, "invalidate": 12, "getentry": 3,
			"setmax": 5, "load": 2}),
		Tasks: [2]int{2, 4}, OpsPer: [2]int{8, 40}, Prefill: [2]int{4, 30},
		Executors:  []string{"default", "sync", "queued"},
		NonTrivial: func(o *ConcOutcome) bool { return o.Probes["admission-decisions-checked"] > 0 },
	}
	Props["C18"].Engines = append(Props["C18"].Engines, &concEngine{opts: c18})
	Props["C18"].Conc = c18
	// C05 (sequential form): whole-API programs with extreme durations ("never" deadlines that later
	// become finite through SetExpiresAfter or a read, and the reverse), same-goroutine executor;
	// the structural audit at the end of the run compares table, eviction policy and timer
	// wheel, and the derived views are compared with the model after every step.
	Props["C05"].Engines = append(Props["C05"].Engines, &seqEngine{
		profile: Profile{Prop: "C05", Executor: []string{"sync"}, ForceExp: true, ExtremeClk: true, MinOps: 10, MaxOps: 80,
			OpW: w(defaultOpW, map[string]int{"setexpires": 10, "advance": 14, "cleanup": 6, "wsize": 4, "esize": 4, "hottest": 3, "coldest": 3, "all": 3})},
		nontrivial: func(o *SeqOutcome) bool { return o.Probes["final-structural-audit"] > 0 },
	})
	// C03 / C15 (sequential, scripted): the loop body of a traversal rewrites a key that has not
	// been visited yet - with a shorter, value-dependent lifetime - and moves the clock onto the new
	// deadline; all keys sit in two bucket chains, so the traversal has usually snapshotted the
	// replaced node already. Whatever it yields for that key afterwards must be unexpired, and a key
	// that was only rewritten must still be yielded.
	rewriteScript := func(r *simrt.Rng, cfg *Cfg) []Op {
		long := int64(1)<<33 + int64(r.Intn(1<<20))
		short := int64(10 + r.Intn(100000))
		cfg.Bound, cfg.Max, cfg.Weights = "none", 0, nil
		cfg.Refresh = "none"
		cfg.Expiry, cfg.ExpD = "custom", long
		cfg.ExpTbl = [3][]int64{{long, short}, {long, short}, nil}
		if r.Intn(4) == 0 {
			cfg.ExpTbl[2] = []int64{0, long}
		}
		cfg.HashMode = 1
		cfg.Keys = 3 + r.Intn(6)
		id := 32
		val := func(k int, wantShort bool) int {
			id += 32
			v := id
			if ((k*7+v)%2 == 1) != wantShort {
				v++
			}
			return v
		}
		var ops []Op
		for k := 0; k < cfg.Keys; k++ {
			ops = append(ops, Op{Kind: "set", K: k, V: val(k, false)})
		}
		for round := 0; round < 1+r.Intn(3); round++ {
			k := r.Intn(cfg.Keys + 1)
			it := Op{Kind: []string{"all", "all", "values", "keys"}[r.Intn(4)], K: k, V: val(k, r.Intn(4) != 0)}
			switch r.Intn(4) {
			case 0:
			case 1:
				it.D2 = short - 1
			default:
				it.D2 = short + int64(r.Intn(3))
			}
			if r.Intn(5) == 0 {
				it.D = int64(1 + r.Intn(cfg.Keys))
			}
			ops = append(ops, it)
			if r.Intn(2) == 0 {
				ops = append(ops, Op{Kind: "set", K: r.Intn(cfg.Keys), V: val(0, false)})
			}
		}
		return ops
	}
	for _, id := range []string{"C03", "C15"} {
		Props[id].Engines = append(Props[id].Engines, &seqEngine{
			profile:    Profile{Prop: id, Executor: []string{"sync"}, ForceExp: true, NoRef: true, Keys: [2]int{3, 8}},
			script:     rewriteScript,
			nontrivial: func(o *SeqOutcome) bool { return o.Probes["iterator-loop-body-wrote"] > 0 },
		})
	}
	// C17 (cache level): "dropping reads never changes what any cache operation returns". Whole-API
	// programs against the reference model - which knows nothing about a read buffer - with a single
	// 16-slot read-buffer stripe, bursts of 17-40 reads and a harness-held executor, so that the
	// buffer is saturated and read events are dropped all the time; every mismatch of such a run is
	// (also) C17's.
	Props["C17"].Engines = append(Props["C17"].Engines, &seqEngine{
		profile: Profile{Prop: "C17", AlsoProp: "C17", Executor: []string{"queued"}, NoRef: true, SmallReadBuf: true, ReadBursts: true, Keys: [2]int{2, 8}, MinOps: 30, MaxOps: 200,
			// (views that lag behind pending maintenance are left out, as in C13's queued-executor engine)
			OpW: w(defaultOpW, map[string]int{"get": 40, "getentry": 8, "advance": 10, "runexec": 4, "cleanup": 3,
				"hottest": 0, "coldest": 0, "setmax": 0, "getmax": 0, "wsize": 0, "esize": 0, "stats": 0})},
		nontrivial: func(o *SeqOutcome) bool { h, _ := probeSum(o, "op:get@", "live"); return h >= 17 },
	})
	// C09 with expiry: the write that lands while a load is in flight may itself expire before the
	// loader returns (the clock moves during the stalled load); the loaded value must still not be
	// installed. No linearizability model here (expiry is reachable): the stale-load and
	// displaced-newer-write rules and the audits judge the run.
	c09exp := &ConcOpts{
		AimAdvance: true,
		Profile:    Profile{Prop: "C09", ForceExp: true, NoRef: true, Keys: [2]int{1, 2}},
		OpW:        zeroExcept(map[string]int{"load": 24, "bulkget": 4, "set": 12, "setifabsent": 3, "compute": 5, "computeifabsent": 2, "invalidate": 6, "get": 8, "advance": 16}),
		Tasks:      [2]int{2, 3}, OpsPer: [2]int{2, 8}, Prefill: [2]int{0, 2},
		Executors: []string{"default", "sync", "queued"}, AllowStall: true, StallP: 3,
		NonTrivial: func(o *ConcOutcome) bool {
			return o.Probes["write-while-loader-runs"]+o.Probes["write-between-loader-return-and-install"] > 0
		},
	}
	Props["C09"].Engines = append(Props["C09"].Engines, &concEngine{opts: c09exp})
	// C17 at cache level under concurrency: readers, writers, InvalidateAll and CleanUp race on a cache
	// with one or two read-buffer stripes; afterwards every recorded read must have been delivered
	// (nothing left in the read buffer once maintenance ran at quiescence - rule
	// lossy.read-buffer-not-drained), the policies must agree with the table (audit), and what the
	// operations returned must be linearizable - the model knows nothing about a read buffer.
	c17 := &ConcOpts{
		Profile: Profile{Prop: "C17", AlsoProp: "C17", NoRef: true, NoExp: true, BoundOnly: true, MidBound: true, SmallReadBuf: true, Keys: [2]int{3, 10}},
		OpW: zeroExcept(map[string]int{"get": 50, "getentry": 6, "set": 14, "compute": 3, "invalidate": 4, "invalidateall": 4, "cleanup": 5, "load": 3,
			"hottest": 1, "coldest": 1, "setmax": 1}),
		Tasks: [2]int{2, 5}, OpsPer: [2]int{6, 40}, Prefill: [2]int{4, 10},
		Executors: []string{"default", "queued", "sync"}, Lin: true,
		NonTrivial: func(o *ConcOutcome) bool { return o.Switches > 4 && o.Probes["bounded"] > 0 },
	}
	Props["C17"].Engines = append(Props["C17"].Engines, &concEngine{opts: c17})
	Props["C17"].Conc = c17
	// C19 with stream faults (separate, relaxed configuration): the stream is truncated, a Read fails,
	// or a Write of the save fails and the prefix is loaded. Nothing is demanded to arrive, but
	// whatever the target then holds must be a saved, unexpired entry with its value and deadlines,
	// within the target's bound; what Save / Load return, and a panic on a damaged stream, are counted
	// as observations only (C19 does not speak about failing streams).
	Props["C19"].Engines = append(Props["C19"].Engines, &seqEngine{
		profile:      Profile{Prop: "C19", Executor: []string{"sync"}, MinOps: 3, MaxOps: 60, OpW: w(defaultOpW, map[string]int{"set": 30, "advance": 8, "setexpires": 4})},
		saveLoad:     true,
		streamFaults: true,
		nontrivial: func(o *SeqOutcome) bool {
			return o.Probes["saveload"]+o.Probes["load-returned-an-error-on-a-faulty-stream"] > 0
		},
	})
	// C12 (concurrent form): whatever the interleaving, the expiration and refresh time a table node
	// ends with must be (clock sample of an operation that could have set it) + (calculator duration
	// for it) - rule deadline.unexplained-* in conc_deadline.go. Two engines: expiry (all policies,
	// clock steps, SetExpiresAfter, readers racing writers) and refresh (reloads on asynchronous
	// executors that succeed, fail and stall, SetRefreshableAfter).
	c12exp := &ConcOpts{
		AimAdvance: true, TinyP: 6,
		Profile: Profile{Prop: "C12", ForceExp: true, NoRef: true, Keys: [2]int{1, 5}},
		OpW: zeroExcept(map[string]int{"set": 22, "setifabsent": 6, "get": 14, "getentry": 4, "compute": 6, "computeifabsent": 4, "computeifpresent": 4,
			"invalidate": 4, "load": 6, "bulkget": 2, "advance": 12, "setexpires": 6, "cleanup": 2}),
		Tasks: [2]int{2, 4}, OpsPer: [2]int{3, 16}, Prefill: [2]int{0, 4},
		Executors:  []string{"default", "queued", "sync"},
		NonTrivial: func(o *ConcOutcome) bool { return o.Switches > 4 && o.Probes["final-expiry-deadlines-judged"] > 0 },
	}
	Props["C12"].Engines = append(Props["C12"].Engines, &concEngine{opts: c12exp})
	Props["C12"].Conc = c12exp
	c12ref := &ConcOpts{
		AimAdvance: true,
		Profile:    Profile{Prop: "C12", ForceRef: true, Keys: [2]int{1, 4}},
		OpW: zeroExcept(map[string]int{"load": 26, "bulkget": 5, "get": 6, "set": 12, "setifabsent": 3, "compute": 4, "invalidate": 3, "advance": 14,
			"refresh": 5, "bulkrefresh": 3, "setrefreshable": 5, "setexpires": 2}),
		Tasks: [2]int{2, 4}, OpsPer: [2]int{3, 14}, Prefill: [2]int{1, 4},
		Executors: []string{"default", "queued"}, AllowStall: true, StallP: 6,
		NonTrivial: func(o *ConcOutcome) bool { return o.Switches > 4 && o.Probes["final-refresh-deadlines-judged"] > 0 },
	}
	Props["C12"].Engines = append(Props["C12"].Engines, &concEngine{opts: c12ref})

}
