package simrt

import "unsafe"

type poolState struct{ items []any }

// PoolGet / PoolPut implement sync.Pool under simulation: contents are per-world; whether Get
// returns a recycled object is decided by the pool stream (sync.Pool may drop objects at any time).
func (w *World) PoolGet(p unsafe.Pointer) (any, bool) {
	ps := w.pools[p]
	if ps == nil || len(ps.items) == 0 {
		w.PoolMisses++
		return nil, false
	}
	switch w.PoolMode {
	case 1:
		w.PoolMisses++
		return nil, false
	case 0:
		if w.PoolRng.Intn(4) == 0 {
			w.PoolMisses++
			return nil, false
		}
	}
	i := 0
	if w.PoolMode == 0 {
		i = w.PoolRng.Intn(len(ps.items))
	}
	x := ps.items[i]
	ps.items[i] = ps.items[len(ps.items)-1]
	ps.items = ps.items[:len(ps.items)-1]
	w.PoolHits++
	return x, true
}

func (w *World) PoolPut(p unsafe.Pointer, x any) {
	ps := w.pools[p]
	if ps == nil {
		ps = &poolState{}
		w.pools[p] = ps
	}
	if len(ps.items) < 64 {
		ps.items = append(ps.items, x)
	}
}

// CondGen / CondBump implement generation counting for ssync.Cond.
func (w *World) CondGen(p unsafe.Pointer) uint64 { return w.condGen[p] }
func (w *World) CondBump(p unsafe.Pointer)       { w.condGen[p]++ }
