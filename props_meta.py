# Per-property descriptions used in the evidence files (what a "non-trivial distinct case" is, which
# components ran real code, assumptions specific to the property).
REAL = "all of otter's non-test code (instrumented copy of /repo's working tree): cache_impl, policy, hashmap, MPSC write buffer, lossy read buffer, timer wheel, singleflight, sketch, stats"
STUBS = "none of otter; the harness supplies clock, executor variants, loaders, handlers, calculators, weigher (the seams otter exposes); sync/atomic/channels/time/rand/maphash are replaced by simulator shims"

def comp():
    return {"real": REAL, "stubbed": STUBS}

META = {
    "C01": {
        "rule": "one case = (configuration, generated operation sequence) run sequentially with the same-goroutine executor and a manual clock; every step's return values, events and the full observable state are compared with the reference model. Non-trivial: the run applied operations to keys in state absent AND live AND (expired-unswept or automatically removed). Distinct: hash of (configuration, operation list).",
        "components": comp(),
        "assumptions": ["behaviour the documentation leaves open (cancelled Compute as a read for access expiry; pre/post-read deadline in GetEntry) is accepted either way"],
    },
}
