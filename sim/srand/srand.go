// Package srand replaces "math/rand/v2" top-level functions.
package srand

import (
	"math/rand/v2"

	"verifsim/simrt"
)

func Uint32() uint32 {
	if w := simrt.W; w != nil {
		return uint32(w.FastRng.Uint64())
	}
	return rand.Uint32()
}
func Uint64() uint64 {
	if w := simrt.W; w != nil {
		return w.FastRng.Uint64()
	}
	return rand.Uint64()
}
func IntN(n int) int {
	if w := simrt.W; w != nil {
		return w.FastRng.Intn(n)
	}
	return rand.IntN(n)
}
func Int() int {
	if w := simrt.W; w != nil {
		return int(w.FastRng.Uint64() >> 1)
	}
	return rand.Int()
}
func Float64() float64 {
	if w := simrt.W; w != nil {
		return w.FastRng.Float64()
	}
	return rand.Float64()
}
func Uint32N(n uint32) uint32 {
	if w := simrt.W; w != nil {
		return uint32(w.FastRng.Uint64() % uint64(n))
	}
	return rand.Uint32N(n)
}
func Uint64N(n uint64) uint64 {
	if w := simrt.W; w != nil {
		return w.FastRng.Uint64() % n
	}
	return rand.Uint64N(n)
}
func Int64N(n int64) int64 {
	if w := simrt.W; w != nil {
		return w.FastRng.Int63n(n)
	}
	return rand.Int64N(n)
}
func Shuffle(n int, swap func(i, j int)) {
	if w := simrt.W; w != nil {
		for i := n - 1; i > 0; i-- {
			swap(i, w.FastRng.Intn(i+1))
		}
		return
	}
	rand.Shuffle(n, swap)
}
