package zzverif

import (
	otter "github.com/maypok86/otter/v2"
	"verifsim/simrt"
)

// Admission decisions under concurrency (C18): "a new arrival displaces the policy's victim only
// if its estimate is strictly greater" (the random admission is pinned off).
//
// What is observed: (1) every maintenance pass, bracketed through the eviction lock
// (simrt.WatchMutex): at acquisition the nodes linked in the main region are remembered by value;
// (2) every look-up of a frequency estimate and every attempt to evict a node for size, through the
// optional observation points the instrumenter inserts at the entry of sketch.frequency and
// cache.evictNode (simrt.Probe). Both happen inside the pass, under the eviction lock, so the
// sketch and the queues cannot change under the check.
//
// Rule, per eviction attempt inside a pass: the node V is alive, has positive weight and was in the
// main region when the pass began (a victim, not an arrival). Let Q be the keys other than V's whose
// estimate was looked up since the previous eviction attempt of this pass (or since the pass
// began). The eviction loop looks estimates up only to compare a candidate with a victim, and every
// comparison is followed by the eviction of the loser, so the candidate that displaced V is in Q. If
// Q is empty, V is evicted without a comparison (no candidates left) and nothing is demanded.
// Otherwise some key in Q must have an estimate strictly greater than V's: if none has, V is being
// displaced by an arrival that is not more popular. Estimates are read at that very moment.
//
// If the tree has no sketch.frequency / cache.evictNode methods the probes are never inserted and
// the rule is silent (counters "admission-frequency-lookups" / "admission-decisions-checked" stay
// zero); nothing else depends on them.
//
// Second rule, for the eviction that needs no comparison ("only the victim is present"): the loop
// reaches that state only after its candidate walk has gone through every arrival of this run of
// the loop - the nodes it moved from the window into the main region - and through the window
// itself, and each candidate it passes is either evicted or compared (its estimate looked up). So
// when a live main-region victim is evicted without any look-up since the previous attempt while
// an arrival that is alive, has positive weight, was never looked up and never offered for eviction
// in this run still sits in the probation queue or the window, the victim is being displaced by
// arrivals the loop never considered. Needs the third optional observation point (entry of
// policy.evictNodes) to know where a run of the loop begins; without it the rule is silent.
type admitWatch struct {
	cr         *concRun
	task       *simrt.Task
	beforeMain map[int]bool
	lookups    []int
	quiet      bool // the harness itself is reading estimates
	// one run of the eviction loop
	loopMainVals map[int]bool // values linked in the main region when the loop began
	loopMainKeys map[int]bool
	loopLooked   map[int]bool // keys whose estimate was looked up in this run
	loopOffered  map[int]bool // values offered for eviction in this run
}

func (cr *concRun) watchAdmission() {
	r := cr.r
	if !cr.cc.Cfg.bounded() {
		return
	}
	otter.VerifPinRand(r.C)
	aw := &admitWatch{cr: cr}
	cr.w.OnProbe = func(name string, arg any) {
		if aw.quiet || aw.task == nil || simrt.Cur() != aw.task {
			return
		}
		switch name {
		case "policy.evictNodes":
			aw.loopMainVals, aw.loopMainKeys = map[int]bool{}, map[int]bool{}
			aw.loopLooked, aw.loopOffered = map[int]bool{}, map[int]bool{}
			for _, n := range otter.VerifPolicyNodes(r.C) {
				if n.Queue != 0 {
					aw.loopMainVals[n.Value], aw.loopMainKeys[n.Key] = true, true
				}
			}
			cr.probe["admission-eviction-loops-observed"]++
		case "sketch.frequency":
			if k, ok := arg.(int); ok {
				aw.lookups = append(aw.lookups, k)
				if aw.loopLooked != nil {
					aw.loopLooked[k] = true
				}
				cr.probe["admission-frequency-lookups"]++
			}
		case "cache.evictNode":
			if n, ok := arg.(interface {
				Key() int
				Value() int
				IsAlive() bool
			}); ok {
				aw.onEvict(n.Key(), n.Value(), n.IsAlive())
			}
		}
	}
	cr.w.WatchMutex(otter.VerifEvictionMutex(r.C), func() {
		aw.task = simrt.Cur()
		aw.lookups = aw.lookups[:0]
		aw.beforeMain = map[int]bool{}
		for _, n := range otter.VerifPolicyNodes(r.C) {
			if n.Queue != 0 {
				aw.beforeMain[n.Value] = true
			}
		}
	}, func() {
		aw.task = nil
		aw.beforeMain = nil
		aw.loopMainVals, aw.loopMainKeys, aw.loopLooked, aw.loopOffered = nil, nil, nil, nil
	})
}

// onEvict is called at every attempt to evict a node for size.
func (aw *admitWatch) onEvict(k, v int, alive bool) {
	cr := aw.cr
	looked := aw.lookups
	aw.lookups = nil
	if aw.loopOffered != nil {
		aw.loopOffered[v] = true
	}
	if !alive || !aw.beforeMain[v] || cr.cc.Cfg.weightOf(v) == 0 {
		return
	}
	aw.quiet = true
	defer func() { aw.quiet = false }()
	fv, enabled, _ := otter.VerifFrequency(cr.r.C, k)
	if !enabled {
		return
	}
	best, bestKey, n := uint64(0), -1, 0
	for _, c := range looked {
		if c == k {
			continue
		}
		n++
		if f, _, _ := otter.VerifFrequency(cr.r.C, c); bestKey < 0 || f > best {
			best, bestKey = f, c
		}
	}
	if n == 0 {
		cr.probe["admission-evictions-without-comparison"]++
		if aw.loopMainVals == nil || !aw.loopMainVals[v] {
			return
		}
		for _, a := range otter.VerifPolicyNodes(cr.r.C) {
			if a.Queue == 2 || !a.Alive || a.Weight == 0 || a.Value == v {
				continue
			}
			if aw.loopMainVals[a.Value] || aw.loopMainKeys[a.Key] || aw.loopLooked[a.Key] || aw.loopOffered[a.Value] {
				continue
			}
			fa, _, _ := otter.VerifFrequency(cr.r.C, a.Key)
			cr.fail(P("C18"), "admit.victim-evicted-unconsidered-arrival", k, "key %d (estimate %d, in the main region since before this run of the eviction loop) is being evicted for size without any comparison although key %d (value %d, estimate %d, queue %d), which arrived after the loop began, is alive and was neither compared nor offered for eviction in this run", k, fv, a.Key, a.Value, fa, a.Queue)
			break
		}
		return
	}
	cr.probe["admission-decisions-checked"]++
	if best <= fv {
		cr.fail(P("C18"), "admit.displaced-more-popular", k, "key %d (estimate %d, in the main region since before this maintenance pass) is being evicted for size after the estimates of %v had been looked up; the most popular of those, key %d, has estimate %d, which is not strictly greater", k, fv, looked, bestKey, best)
	}
}
