// Package zzverif is the verification harness. It is copied into a scratch copy of otter
// (internal/zzverif) and drives the instrumented, otherwise unmodified cache under verifsim.
package zzverif

import (
	"context"
	"errors"
	"fmt"
	"math"
	"sort"
	"time"
	"unsafe"

	otter "github.com/maypok86/otter/v2"
	"github.com/maypok86/otter/v2/stats"
	"verifsim/simrt"
)

const never = int64(math.MaxInt64)

// Cfg is the cache + environment configuration of one run. Everything is explicit so that a replay
// file is self-contained.
type Cfg struct {
	Bound       string     `json:"bound"` // none | size | weight
	Max         uint64     `json:"max,omitempty"`
	Weights     []uint32   `json:"weights,omitempty"` // weight classes; weight(v) = Weights[v % len]
	Expiry      string     `json:"expiry"`            // none | creating | writing | accessing | custom
	ExpD        int64      `json:"expd,omitempty"`
	ExpTbl      [3][]int64 `json:"exptbl,omitempty"` // custom: create / update / read
	Refresh     string     `json:"refresh"`          // none | creating | writing | custom
	RefD        int64      `json:"refd,omitempty"`
	RefTbl      [4][]int64 `json:"reftbl,omitempty"` // create / update / reload / reload-failure
	InitCap     int        `json:"initcap,omitempty"`
	Executor    string     `json:"executor"` // sync | default | queued
	Stats       bool       `json:"stats,omitempty"`
	WriteBufMax uint32     `json:"wbuf"`
	StripedMax  int        `json:"rbuf"`
	Parallelism int        `json:"par"`
	HashMode    int        `json:"hash,omitempty"`
	PoolMode    int        `json:"pool,omitempty"`
	ClockOrigin int64      `json:"clock0"`
	Keys        int        `json:"keys"`
	Ticker      bool       `json:"ticker,omitempty"`
	// OnDeletion panics after it has taken note of every n-th notification (0: never). Every executor
	// of the harness contains a panic the way a goroutine boundary with a recover would; the other
	// notifications must still arrive, each once.
	HandlerPanicEvery int `json:"handler_panic_every,omitempty"`
	// a slow OnAtomicDeletion handler: this many scheduling points inside it (it runs under the
	// key's bucket lock, after the old node was retired and before the table slot changes)
	AtomicHandlerPoints int `json:"atomic_handler_points,omitempty"`
}

func (c *Cfg) W() int {
	if len(c.Weights) == 0 {
		return 1
	}
	return len(c.Weights)
}

func (c *Cfg) weightOf(v int) uint32 {
	if c.Bound != "weight" {
		return 1
	}
	if v < 0 {
		v = -v
	}
	return c.Weights[v%len(c.Weights)]
}

func (c *Cfg) withExpiry() bool  { return c.Expiry != "none" && c.Expiry != "" }
func (c *Cfg) withRefresh() bool { return c.Refresh != "none" && c.Refresh != "" }
func (c *Cfg) bounded() bool     { return c.Bound == "size" || c.Bound == "weight" }

func tbl(t []int64, k, v int) int64 {
	if len(t) == 0 {
		return 0
	}
	x := k*7 + v
	if x < 0 {
		x = -x
	}
	return t[x%len(t)]
}

// Durations the configured calculators return. The model calls exactly these functions.
func (c *Cfg) expCreate(k, v int) int64 {
	if c.Expiry == "custom" {
		return tbl(c.ExpTbl[0], k, v)
	}
	return c.ExpD
}

// expUpdate: 0 means "keep the inherited deadline".
func (c *Cfg) expUpdate(k, v int) int64 {
	switch c.Expiry {
	case "custom":
		return tbl(c.ExpTbl[1], k, v)
	case "creating":
		return 0
	}
	return c.ExpD
}
func (c *Cfg) expRead(k, v int) int64 {
	switch c.Expiry {
	case "custom":
		return tbl(c.ExpTbl[2], k, v)
	case "accessing":
		return c.ExpD
	}
	return 0
}
func (c *Cfg) refCreate(k, v int) int64 {
	if c.Refresh == "custom" {
		return tbl(c.RefTbl[0], k, v)
	}
	return c.RefD
}
func (c *Cfg) refUpdate(k, v int) int64 {
	switch c.Refresh {
	case "custom":
		return tbl(c.RefTbl[1], k, v)
	case "creating":
		return 0
	}
	return c.RefD
}
func (c *Cfg) refReload(k, v int) int64 {
	switch c.Refresh {
	case "custom":
		return tbl(c.RefTbl[2], k, v)
	case "creating":
		return 0
	}
	return c.RefD
}
func (c *Cfg) refFail(k, v int) int64 {
	if c.Refresh == "custom" {
		return tbl(c.RefTbl[3], k, v)
	}
	return 0
}

// satAdd advances a clock value; the clock never reaches MaxInt64 itself (a clock at MaxInt64 would
// make "never" deadlines due, which no monotone real clock does).
func satAdd(a, b int64) int64 {
	const top = never - 4096
	s := a + b
	if (b > 0 && s < a) || s > top {
		if a > top {
			return a // an origin above the cap: the clock stands still, it never moves backwards
		}
		return top
	}
	return s
}

// ---------------------------------------------------------------------------------------------
// Operations

type LoadPlan struct {
	Kind   string `json:"kind"`             // val | err | notfound | panic
	ErrMap bool   `json:"errmap,omitempty"` // bulk, kind err: the loader returns its (partial) map next to the error
	Omit   []int  `json:"omit,omitempty"`   // bulk: requested keys the loader leaves out
	Extra  []int  `json:"extra,omitempty"`  // bulk: keys the loader volunteers
	Points int    `json:"points,omitempty"` // scheduling points inside the loader
	Stall  bool   `json:"stall,omitempty"`  // park until the rest of the system is idle
	Adv    int64  `json:"adv,omitempty"`    // the loader takes time: the clock moves by Adv while it runs (sequential engines)
	// kind err: the call is made with a context that is already cancelled. A loader handed such a
	// context fails (the harness loader does, being of kind err); otter itself passes the context on
	// and must still invoke the loader, count the failure once and cache nothing.
	Cancelled bool `json:"cancelled,omitempty"`
}

// ctxFor: the context a loading operation is called with.
func (r *Runner) ctxFor(op *Op) context.Context {
	if op.Load != nil && op.Load.Cancelled {
		ctx, cancel := context.WithCancel(context.Background())
		cancel()
		r.fault("context-cancelled-before-call")
		return ctx
	}
	return context.Background()
}

type Op struct {
	Kind string    `json:"op"`
	K    int       `json:"k,omitempty"`
	Ks   []int     `json:"ks,omitempty"`
	V    int       `json:"v,omitempty"`  // value (or base id of the values a loader produces)
	D    int64     `json:"d,omitempty"`  // duration / clock advance / maximum
	D2   int64     `json:"d2,omitempty"` // iterators: the caller's loop body advances the clock by D2 after the first element
	Comp string    `json:"comp,omitempty"`
	Load *LoadPlan `json:"load,omitempty"`
}

func (o Op) String() string {
	s := o.Kind
	switch o.Kind {
	case "bulkget", "bulkrefresh":
		s += fmt.Sprintf(" ks=%v v=%d", o.Ks, o.V)
	case "advance", "setmax":
		s += fmt.Sprintf(" d=%d", o.D)
	case "all", "keys", "values", "hottest", "coldest":
		if o.D > 0 {
			s += fmt.Sprintf(" break-after=%d", o.D)
		}
		if o.V != 0 {
			s += fmt.Sprintf(" set-after-first=%d:%d", o.K, o.V)
		}
		if o.D2 > 0 {
			s += fmt.Sprintf(" advance-after-first=%d", o.D2)
		}
	case "cleanup", "invalidateall", "getmax", "wsize", "esize", "stats", "runexec", "saveload":
	default:
		s += fmt.Sprintf(" k=%d", o.K)
		if o.V != 0 {
			s += fmt.Sprintf(" v=%d", o.V)
		}
		if o.D != 0 {
			s += fmt.Sprintf(" d=%d", o.D)
		}
	}
	if o.Comp != "" {
		s += " comp=" + o.Comp
	}
	if o.Load != nil {
		s += fmt.Sprintf(" load=%+v", *o.Load)
	}
	return s
}

// EntryView is the observable part of an entry.
type EntryView struct {
	K   int    `json:"k"`
	V   int    `json:"v"`
	W   uint32 `json:"w"`
	Exp int64  `json:"exp"`
	Ref int64  `json:"ref"`
}

// Result is what an operation returned.
type Result struct {
	V        int
	Ok       bool
	Err      string // "", "err", "notfound", "panic", "joined"
	Panic    bool
	Entry    *EntryView
	Map      map[int]int
	Entries  []EntryView
	IterNow  []int64  // iterators: clock when the loop body of element i returned
	IterTick []uint64 // iterators: event sequence value at that moment
	Num      uint64
	Nil      bool // nil refresh channel
	Refresh  []RefreshView
	Stats    stats.Stats
	// compute bookkeeping
	CompCalls int
	CompSaw   int
	CompFound bool
}

type RefreshView struct {
	K   int
	V   int
	Err string
}

// Event is a deletion notification.
type Event struct {
	TaskRef *simrt.Task // the task in which the handler ran
	Begin   uint64      // atomic events: event sequence value when the emitting task took the bucket lock
	Seq     uint64
	End     uint64 // atomic events: when the table computation that invoked the handler completed
	Atomic  bool
	K, V    int
	Cause   otter.DeletionCause
	Task    int    // task in whose context it fired
	OpIdx   int    // that task's current operation index (-1 none)
	OpKind  string // and its kind
	Now     int64
}

type loadRec struct {
	Op         *Op // the operation whose loader this is
	TaskRef    *simrt.Task
	InstallEnd uint64 // when the executor function / operation that ran the loader returned (0: unknown)
	Task       int
	Enter      uint64
	Exit       uint64
	NowEnter   int64 // clock when the loader was entered
	Keys       []int
	Reload     bool
	Olds       []int
	Bulk       bool
	Plan       LoadPlan
	Ret        map[int]int
	Rejected   map[int]int // bulk loader that failed but returned a map: values that must never surface
	OpIdx      int
	Outcome    string
}

var errLoad = errors.New("verif: injected loader error")

type injectedPanic struct{ id int }

// taskCtx is attached to simrt.Task.Tag.
type taskCtx struct {
	bg     int // >0 while running a function handed to the executor (background context)
	id     int
	opIdx  int
	opKind string
	op     *Op
}

// Runner owns one cache under test and the observation logs.
type Runner struct {
	W      *simrt.World
	Cfg    *Cfg
	C      *otter.Cache[int, int]
	Events []Event
	Loads  []*loadRec
	tick   chan time.Time
	// queued executor
	Queue    []func()
	ExecRuns int
	// calculator log for C12
	lastTick  int64
	LogErrors int
	Counter   *stats.Counter
	stallAddr byte
	stalled   int
	// fault counters
	Faults map[string]int
	// hook: called for each atomic deletion event as it fires (seq engine feeds the model)
	OnAtomic     func(e Event)
	OnAsync      func(e Event)
	bgExecPanics []any
	onQueue      func()
}

func (r *Runner) fault(name string) { r.Faults[name]++ }

// simClock implements otter.Clock on the world's clock.
type simClock struct{ r *Runner }

func (c simClock) NowNano() int64 {
	simrt.Point(simrt.KClock)
	return c.r.W.Now
}
func (c simClock) Tick(d time.Duration) <-chan time.Time { return c.r.tick }

type nopLogger struct{ r *Runner }

func (l nopLogger) Warn(ctx context.Context, msg string, err error)  {}
func (l nopLogger) Error(ctx context.Context, msg string, err error) { l.r.LogErrors++ }

type expCalc struct{ c *Cfg }

func (e expCalc) ExpireAfterCreate(en otter.Entry[int, int]) time.Duration {
	return time.Duration(e.c.expCreate(en.Key, en.Value))
}
func (e expCalc) ExpireAfterUpdate(en otter.Entry[int, int], old int) time.Duration {
	return time.Duration(e.c.expUpdate(en.Key, en.Value))
}
func (e expCalc) ExpireAfterRead(en otter.Entry[int, int]) time.Duration {
	return time.Duration(e.c.expRead(en.Key, en.Value))
}

type refCalc struct{ c *Cfg }

func (e refCalc) RefreshAfterCreate(en otter.Entry[int, int]) time.Duration {
	return time.Duration(e.c.refCreate(en.Key, en.Value))
}
func (e refCalc) RefreshAfterUpdate(en otter.Entry[int, int], old int) time.Duration {
	return time.Duration(e.c.refUpdate(en.Key, en.Value))
}
func (e refCalc) RefreshAfterReload(en otter.Entry[int, int], old int) time.Duration {
	return time.Duration(e.c.refReload(en.Key, en.Value))
}
func (e refCalc) RefreshAfterReloadFailure(en otter.Entry[int, int], err error) time.Duration {
	return time.Duration(e.c.refFail(en.Key, en.Value))
}

func curCtx() *taskCtx {
	t := simrt.Cur()
	if t == nil {
		return nil
	}
	if c, ok := t.Tag.(*taskCtx); ok {
		return c
	}
	return nil
}

// NewRunner builds the cache for cfg inside world w.
func NewRunner(w *simrt.World, cfg *Cfg) *Runner {
	r := &Runner{W: w, Cfg: cfg, Faults: map[string]int{}}
	r.tick = make(chan time.Time, 1)
	otter.VerifSetBufferSizes(cfg.WriteBufMax, cfg.StripedMax)
	o := &otter.Options[int, int]{
		InitialCapacity: cfg.InitCap,
		Clock:           simClock{r},
		Logger:          nopLogger{r},
	}
	switch cfg.Bound {
	case "size":
		o.MaximumSize = int(cfg.Max)
	case "weight":
		o.MaximumWeight = cfg.Max
		o.Weigher = func(k, v int) uint32 { return cfg.weightOf(v) }
	}
	switch cfg.Expiry {
	case "creating":
		o.ExpiryCalculator = otter.ExpiryCreating[int, int](time.Duration(cfg.ExpD))
	case "writing":
		o.ExpiryCalculator = otter.ExpiryWriting[int, int](time.Duration(cfg.ExpD))
	case "accessing":
		o.ExpiryCalculator = otter.ExpiryAccessing[int, int](time.Duration(cfg.ExpD))
	case "custom":
		o.ExpiryCalculator = expCalc{cfg}
	}
	switch cfg.Refresh {
	case "creating":
		o.RefreshCalculator = otter.RefreshCreating[int, int](time.Duration(cfg.RefD))
	case "writing":
		o.RefreshCalculator = otter.RefreshWriting[int, int](time.Duration(cfg.RefD))
	case "custom":
		o.RefreshCalculator = refCalc{cfg}
	}
	switch cfg.Executor {
	case "sync":
		o.Executor = func(fn func()) { r.runExec(fn) }
	case "queued":
		o.Executor = func(fn func()) {
			r.Queue = append(r.Queue, fn)
			if r.onQueue != nil {
				r.onQueue()
			}
		}
	case "default":
		// nil: otter's own `go fn()`
	default:
		panic("bad executor " + cfg.Executor)
	}
	if cfg.Stats {
		r.Counter = stats.NewCounter()
		o.StatsRecorder = r.Counter
	}
	o.OnAtomicDeletion = func(e otter.DeletionEvent[int, int]) {
		ev := r.mkEvent(e, true)
		ev.Begin = simrt.HeldSince()
		idx := len(r.Events)
		r.Events = append(r.Events, ev)
		// the removal takes effect inside the table computation that is running this handler;
		// that computation ends with the release of the bucket lock
		simrt.OnNextUnlock(func() { r.Events[idx].End = r.W.Tick() })
		if r.OnAtomic != nil {
			r.OnAtomic(ev)
		}
		if cfg.AtomicHandlerPoints > 0 {
			r.fault("slow-atomic-handler")
			for i := 0; i < cfg.AtomicHandlerPoints; i++ {
				simrt.Point(simrt.KCallback)
			}
		}
	}
	asyncSeen := 0
	o.OnDeletion = func(e otter.DeletionEvent[int, int]) {
		ev := r.mkEvent(e, false)
		r.Events = append(r.Events, ev)
		if r.OnAsync != nil {
			r.OnAsync(ev)
		}
		asyncSeen++
		if cfg.HandlerPanicEvery > 0 && asyncSeen%cfg.HandlerPanicEvery == 0 {
			r.fault("ondeletion-handler-panic")
			panic(injectedPanic{-1})
		}
	}
	func() {
		defer func() {
			if p := recover(); p != nil {
				w.AbortSetup(fmt.Sprintf("cache construction panicked with the harness's configuration %+v: %v", *cfg, p))
			}
		}()
		r.C = otter.Must(o)
	}()
	return r
}

func (r *Runner) mkEvent(e otter.DeletionEvent[int, int], atomic bool) Event {
	ev := Event{Seq: r.W.Tick(), Atomic: atomic, K: e.Key, V: e.Value, Cause: e.Cause, Task: -1, OpIdx: -1, Now: r.W.Now, TaskRef: simrt.Cur()}
	if c := curCtx(); c != nil && c.bg == 0 {
		ev.Task, ev.OpIdx, ev.OpKind = c.id, c.opIdx, c.opKind
	}
	return ev
}

// runExec runs an executor function, containing panics the way a goroutine boundary would
// (a panic in an executor task cannot reach the caller of the cache operation).
func (r *Runner) runExec(fn func()) {
	r.ExecRuns++
	start := len(r.Loads)
	me := simrt.Cur()
	if c := curCtx(); c != nil {
		c.bg++
		defer func() { c.bg-- }()
	}
	defer func() {
		if p := recover(); p != nil {
			r.bgExecPanics = append(r.bgExecPanics, p)
		}
		end := r.W.Tick()
		for _, l := range r.Loads[start:] {
			if l.TaskRef == me && l.InstallEnd == 0 {
				l.InstallEnd = end
			}
		}
	}()
	fn()
}

// RunQueued runs up to n queued executor functions (n<0: until the queue is empty), in FIFO order
// or a permuted order chosen by pick.
func (r *Runner) RunQueued(n int, pick func(n int) int) int {
	ran := 0
	for len(r.Queue) > 0 && (n < 0 || ran < n) {
		i := 0
		if pick != nil {
			i = pick(len(r.Queue))
		}
		fn := r.Queue[i]
		r.Queue = append(r.Queue[:i], r.Queue[i+1:]...)
		r.runExec(fn)
		ran++
	}
	return ran
}

// Advance moves the clock and feeds the ticker.
func (r *Runner) Advance(d int64) {
	w := r.W
	w.Now = satAdd(w.Now, d)
	if r.Cfg.Ticker && r.Cfg.withExpiry() {
		if w.Now/int64(time.Second) != r.lastTick {
			r.lastTick = w.Now / int64(time.Second)
			if simrt.TrySend(r.tick, time.Unix(0, w.Now)) {
				r.fault("tick-delivered")
			}
		}
	}
}

// ---------------------------------------------------------------------------------------------
// Loaders

type loader struct {
	r    *Runner
	op   *Op
	bulk bool
	cnt  *int // loader invocations of this operation so far
}

func (l loader) phase() int {
	p := *l.cnt
	*l.cnt++
	return p
}

func (r *Runner) loaderBody(rec *loadRec) {
	rec.Enter = r.W.Tick()
	rec.NowEnter = r.W.Now
	rec.TaskRef = simrt.Cur()
	if c := curCtx(); c != nil {
		rec.Task, rec.OpIdx = c.id, c.opIdx
	} else {
		rec.Task, rec.OpIdx = -1, -1
	}
	r.Loads = append(r.Loads, rec)
	if rec.Plan.Adv > 0 {
		r.fault("loader-takes-time")
		r.Advance(rec.Plan.Adv)
	}
	for i := 0; i < rec.Plan.Points; i++ {
		simrt.Point(simrt.KCallback)
	}
	if rec.Plan.Stall {
		r.fault("loader-stall")
		r.stalled++
		simrt.BlockOn("loader-stall", simrtAddr(&r.stallAddr))
		r.stalled--
	}
}

// valFor: the value the phase-th loader invocation of op produces for key k. op.V is the op's base
// id (a multiple of 32, unique per op), keys are < 16 and an operation invokes a loader at most
// twice, so values are unique per run; v % W is the weight class.
func (r *Runner) valFor(op *Op, k int, phase int) int {
	W := r.Cfg.W()
	return (op.V+16*(phase%2)+k%16)*W + (op.V/32+k+phase)%W
}

func (l loader) single(k int, reload bool, old int) (int, error) {
	r := l.r
	plan := LoadPlan{Kind: "val"}
	if l.op.Load != nil {
		plan = *l.op.Load
	}
	ph := l.phase()
	rec := &loadRec{Op: l.op, Keys: []int{k}, Reload: reload, Plan: plan}
	if reload {
		rec.Olds = []int{old}
	}
	r.loaderBody(rec)
	defer func() { rec.Exit = r.W.Tick() }()
	rec.Outcome = plan.Kind
	switch plan.Kind {
	case "err":
		r.fault("loader-error")
		v := r.valFor(l.op, k, ph)
		rec.Ret = map[int]int{k: v}
		return v, errLoad
	case "notfound":
		r.fault("loader-notfound")
		return 0, otter.ErrNotFound
	case "panic":
		r.fault("loader-panic")
		rec.Exit = r.W.Tick()
		panic(injectedPanic{l.op.V})
	}
	v := r.valFor(l.op, k, ph)
	rec.Ret = map[int]int{k: v}
	return v, nil
}

func (l loader) Load(ctx context.Context, k int) (int, error) { return l.single(k, false, 0) }
func (l loader) Reload(ctx context.Context, k int, old int) (int, error) {
	return l.single(k, true, old)
}

func (l loader) bulkDo(keys []int, reload bool, olds []int) (map[int]int, error) {
	r := l.r
	plan := LoadPlan{Kind: "val"}
	if l.op.Load != nil {
		plan = *l.op.Load
	}
	ph := l.phase()
	ks := append([]int(nil), keys...)
	rec := &loadRec{Op: l.op, Keys: ks, Reload: reload, Bulk: true, Plan: plan, Olds: append([]int(nil), olds...)}
	r.loaderBody(rec)
	defer func() { rec.Exit = r.W.Tick() }()
	rec.Outcome = plan.Kind
	switch plan.Kind {
	case "err":
		r.fault("loader-error")
		if !plan.ErrMap {
			return nil, errLoad
		}
		r.fault("loader-error-with-map")
	case "notfound":
		r.fault("loader-notfound")
		return nil, otter.ErrNotFound
	case "panic":
		r.fault("loader-panic")
		rec.Exit = r.W.Tick()
		panic(injectedPanic{l.op.V})
	}
	res := map[int]int{}
	omit := map[int]bool{}
	for _, k := range plan.Omit {
		omit[k] = true
	}
	for _, k := range keys {
		if omit[k] {
			r.fault("bulk-omitted-key")
			continue
		}
		res[k] = r.valFor(l.op, k, ph)
	}
	req := map[int]bool{}
	for _, k := range keys {
		req[k] = true
	}
	for _, k := range plan.Extra {
		if _, ok := res[k]; !ok && !req[k] {
			r.fault("bulk-extra-key")
			res[k] = r.valFor(l.op, k, ph)
		}
	}
	if plan.Kind == "err" {
		// a failing loader that still hands back what it got: none of it may be cached or returned
		rec.Rejected = map[int]int{}
		for k, v := range res {
			rec.Rejected[k] = v
		}
		return res, errLoad
	}
	rec.Ret = map[int]int{}
	for k, v := range res {
		rec.Ret[k] = v
	}
	return res, nil
}

func (l loader) BulkLoad(ctx context.Context, keys []int) (map[int]int, error) {
	return l.bulkDo(keys, false, nil)
}
func (l loader) BulkReload(ctx context.Context, keys []int, olds []int) (map[int]int, error) {
	return l.bulkDo(keys, true, olds)
}

// ReleaseStalled wakes loaders parked by a stall plan. Returns whether any was parked.
func (r *Runner) ReleaseStalled() bool {
	if r.stalled == 0 {
		return false
	}
	simrt.WakeAll(simrtAddr(&r.stallAddr))
	return true
}

// ---------------------------------------------------------------------------------------------
// Executing one operation

func errKind(err error) string {
	switch {
	case err == nil:
		return ""
	case errors.Is(err, otter.ErrNotFound):
		return "notfound"
	case errors.Is(err, errLoad):
		return "err"
	}
	return "other:" + err.Error()
}

func view(e otter.Entry[int, int]) *EntryView {
	return &EntryView{K: e.Key, V: e.Value, W: e.Weight, Exp: e.ExpiresAtNano, Ref: e.RefreshableAtNano}
}

// Exec runs op against the cache. Panics of the operation are caught and reported in Result.Panic
// (re-panicking simulator aborts is unnecessary: aborts use Goexit).
func (r *Runner) Exec(op *Op) (res Result) {
	c := r.C
	defer func() {
		if p := recover(); p != nil {
			res.Panic = true
			res.Err = fmt.Sprintf("panic:%v", shortPanic(p))
		}
	}()
	switch op.Kind {
	case "set":
		res.V, res.Ok = c.Set(op.K, op.V)
	case "setifabsent":
		res.V, res.Ok = c.SetIfAbsent(op.K, op.V)
	case "get":
		res.V, res.Ok = c.GetIfPresent(op.K)
	case "getentry":
		e, ok := c.GetEntry(op.K)
		res.Ok = ok
		if ok {
			res.V = e.Value
			res.Entry = view(e)
		}
	case "getquiet":
		e, ok := c.GetEntryQuietly(op.K)
		res.Ok = ok
		if ok {
			res.V = e.Value
			res.Entry = view(e)
		}
	case "compute":
		res.V, res.Ok = c.Compute(op.K, func(old int, found bool) (int, otter.ComputeOp) {
			res.CompCalls++
			res.CompSaw, res.CompFound = old, found
			simrt.Point(simrt.KCallback)
			return r.compRet(op)
		})
	case "computeifabsent":
		res.V, res.Ok = c.ComputeIfAbsent(op.K, func() (int, bool) {
			res.CompCalls++
			simrt.Point(simrt.KCallback)
			if op.Comp == "panic" {
				panic(injectedPanic{op.V})
			}
			return op.V, op.Comp == "cancel"
		})
	case "computeifpresent":
		res.V, res.Ok = c.ComputeIfPresent(op.K, func(old int) (int, otter.ComputeOp) {
			res.CompCalls++
			res.CompSaw, res.CompFound = old, true
			simrt.Point(simrt.KCallback)
			return r.compRet(op)
		})
	case "invalidate":
		res.V, res.Ok = c.Invalidate(op.K)
	case "invalidateall":
		c.InvalidateAll()
	case "setexpires":
		c.SetExpiresAfter(op.K, time.Duration(op.D))
	case "setrefreshable":
		c.SetRefreshableAfter(op.K, time.Duration(op.D))
	case "load":
		v, err := c.Get(r.ctxFor(op), op.K, loader{r: r, op: op, cnt: new(int)})
		res.V, res.Err, res.Ok = v, errKind(err), err == nil
	case "bulkget":
		m, err := c.BulkGet(r.ctxFor(op), op.Ks, loader{r: r, op: op, bulk: true, cnt: new(int)})
		res.Map, res.Err = m, errKind(err)
	case "refresh":
		ch := c.Refresh(r.ctxFor(op), op.K, loader{r: r, op: op, cnt: new(int)})
		if ch == nil {
			res.Nil = true
		} else {
			r.awaitRefresh(func() {
				rr := simrt.Recv1(ch)
				res.Refresh = append(res.Refresh, RefreshView{rr.Key, rr.Value, errKind(rr.Err)})
			})
		}
	case "bulkrefresh":
		ch := c.BulkRefresh(r.ctxFor(op), op.Ks, loader{r: r, op: op, bulk: true, cnt: new(int)})
		if ch == nil {
			res.Nil = true
		} else {
			r.awaitRefresh(func() {
				rs := simrt.Recv1(ch)
				for _, rr := range rs {
					res.Refresh = append(res.Refresh, RefreshView{rr.Key, rr.Value, errKind(rr.Err)})
				}
				sort.Slice(res.Refresh, func(i, j int) bool { return res.Refresh[i].K < res.Refresh[j].K })
			})
		}
	// iterators: D > 0 means the caller breaks out of the loop after D entries
	case "all":
		for k, v := range c.All() {
			res.Entries = append(res.Entries, EntryView{K: k, V: v})
			r.midIter(op, &res)
			if op.D > 0 && int64(len(res.Entries)) >= op.D {
				break
			}
		}
	case "keys":
		for k := range c.Keys() {
			res.Entries = append(res.Entries, EntryView{K: k})
			r.midIter(op, &res)
			if op.D > 0 && int64(len(res.Entries)) >= op.D {
				break
			}
		}
	case "values":
		for v := range c.Values() {
			res.Entries = append(res.Entries, EntryView{V: v})
			r.midIter(op, &res)
			if op.D > 0 && int64(len(res.Entries)) >= op.D {
				break
			}
		}
	case "hottest":
		for e := range c.Hottest() {
			res.Entries = append(res.Entries, *view(e))
			r.midIter(op, &res)
			if op.D > 0 && int64(len(res.Entries)) >= op.D {
				break
			}
		}
	case "coldest":
		for e := range c.Coldest() {
			res.Entries = append(res.Entries, *view(e))
			r.midIter(op, &res)
			if op.D > 0 && int64(len(res.Entries)) >= op.D {
				break
			}
		}
	case "setmax":
		c.SetMaximum(uint64(op.D))
	case "getmax":
		res.Num = c.GetMaximum()
	case "wsize":
		res.Num = c.WeightedSize()
	case "esize":
		res.Num = uint64(c.EstimatedSize())
	case "cleanup":
		c.CleanUp()
	case "stats":
		res.Stats = c.Stats()
	case "advance":
		r.Advance(op.D)
	case "runexec":
		res.Num = uint64(r.RunQueued(int(op.D), nil))
	default:
		panic("unknown op " + op.Kind)
	}
	return res
}

// awaitRefresh receives a manual refresh result. With the queued executor the reload sits in the
// queue, so the queue is run first (the result channel has capacity 1).
// midIter is the body of the caller's loop over an iterator: after the first element it may move
// the clock (Op.D2), so that later elements are judged at a later time than the first one.
func (r *Runner) midIter(op *Op, res *Result) {
	if op.V != 0 && len(res.Entries) == 1 {
		// the caller's loop body writes to the cache it is iterating over (sequential engines)
		r.C.Set(op.K, op.V)
	}
	if op.D2 > 0 && len(res.Entries) == 1 {
		r.Advance(op.D2)
	}
	// the consumer is slow: other tasks may run while the loop body does. The clock and the event
	// sequence value at the end of the body are lower bounds for the moment the traversal looks
	// at its next element.
	simrt.Point(simrt.KCallback)
	res.IterNow = append(res.IterNow, r.W.Now)
	res.IterTick = append(res.IterTick, r.W.Tick())
}

func (r *Runner) awaitRefresh(recv func()) {
	if r.Cfg.Executor == "queued" && r.onQueue == nil {
		r.RunQueued(-1, nil)
	}
	recv()
}

func (r *Runner) compRet(op *Op) (int, otter.ComputeOp) {
	switch op.Comp {
	case "write":
		return op.V, otter.WriteOp
	case "inval":
		return 0, otter.InvalidateOp
	case "cancel":
		return 0, otter.CancelOp
	case "panic":
		panic(injectedPanic{op.V})
	}
	panic("bad comp " + op.Comp)
}

func shortPanic(p any) string {
	if _, ok := p.(injectedPanic); ok {
		return "injected"
	}
	s := fmt.Sprint(p)
	if len(s) > 0 && s[0] == '{' { // otter's panicError wrapping injectedPanic{id}
		return "injected"
	}
	if len(s) > 100 {
		s = s[:100]
	}
	return s
}

func simrtAddr(b *byte) unsafe.Pointer { return unsafe.Pointer(b) }

func indexOf(s, sub string) int {
	for i := 0; i+len(sub) <= len(s); i++ {
		if s[i:i+len(sub)] == sub {
			return i
		}
	}
	return -1
}
