# Per-property descriptions used in MANIFEST.json and in the evidence files: what a "non-trivial
# distinct case" is, which components ran real code, level texts, assumptions.
REAL = ("all of otter's non-test code from an instrumented copy of /repo's working tree: cache_impl, policy, "
        "hashmap, MPSC write buffer, lossy read buffer, timer wheel, singleflight, sketch, stats, persistence")
STUBS = ("none of otter. The harness plays the parties otter exposes seams for: clock, executor variants, loaders, "
         "deletion handlers, expiry/refresh calculators, weigher, io streams; sync, sync/atomic, channels, go statements, "
         "time.Now, math/rand, hash/maphash, runtime.GOMAXPROCS/AddCleanup are replaced by simulator shims")


def comp():
    return {"real": REAL, "stubbed": STUBS}


SEQ_NOTE = ("Trusted: the simulator runtime and instrumenter (self-tested: determinism + repository tests on the instrumented "
            "tree), the reference model (DESIGN.md Appendix A), go1.26.8 instead of the baseline's go1.24. "
            "Sampling: programs of 20-200 operations over 2-12 keys; no exhaustiveness claim.")
CONC_NOTE = ("Trusted: the simulator runtime (schedules are decided at sync/atomic/channel/clock/callback points under sequential "
             "consistency; plain-memory races and weak-memory effects are not explored), the instrumenter, the oracle. "
             "Sampling: 2-5 client tasks x 3-40 operations; schedules from random-walk / PCT / burst / window strategies.")

META = {
    "C01": {
        "technique": "deterministic simulation: seeded operation/clock sequences vs executable reference model (refinement check after every step)",
        "level_text": "Seeded search over (configuration, operation sequence, clock advances) with every return value, deletion event and the full observable state compared to a map-with-deadlines model after every step; all 12 node layouts x expiry/refresh kinds x capacities are drawn. A clean batch is evidence, not proof.",
        "level_note": SEQ_NOTE,
        "rule": "one case = (configuration, generated operation sequence) run sequentially with the same-goroutine executor and a manual clock; every step's return values, events and the full observable state are compared with the reference model. Non-trivial: the run applied operations to keys in state absent AND live AND (expired-unswept or automatically removed). Distinct: hash of (configuration, operation list).",
        "components": comp(),
        "assumptions": ["behaviour the documentation leaves open (cancelled Compute as a read for access expiry; pre/post-read deadline in GetEntry; refresh rule for volunteered bulk keys; whether a load result survives an eviction of its key during the same bulk call) is accepted either way"],
    },
    "C03": {
        "technique": "deterministic simulation: clock steered onto deadlines (sub-tick, no sweep), every operation kind applied to expired-unswept keys, incl. save/load; model visibility oracle; concurrent histories (clock moved at barriers between rounds, as the property quantifies) checked with porcupine against a map with deadlines",
        "level_text": "Seeded search that drives keys into the expired-but-unswept state (clock advanced to deadline-1/deadline/deadline+1, no CleanUp) and applies every public operation kind to them, comparing results, events and state with the model; a second engine saves and reloads caches holding such entries. The op-kind x key-state matrix is reported so an uncovered cell is visible.",
        "level_note": SEQ_NOTE,
        "rule": "one case = (configuration with expiry, operation sequence [, save/load plan]) or (configuration, per-task programs with barriers) x one schedule. Non-trivial: at least 3 different operation kinds were applied to an expired-but-unswept key (sequence engine), a save/load round trip ran (persistence engine), or operations of different tasks overlapped on a key and the clock moved at a barrier (concurrent engine). Distinct: hash of the case (and context-switch sequence).",
        "components": comp(),
        "assumptions": ["concurrent form: rounds of 2-4 tasks separated by barriers at which the clock moves onto / around the deadlines (the property's 'clock only moves between operations'); per-key histories are checked with porcupine against the map with deadlines for the built-in policies; a GetEntryQuietly miss during a concurrent overwrite and a SetExpiresAfter lost to a racing write are accepted (the property forbids seeing dead values, not missing live ones)"],
    },
    "C07": {
        "technique": "deterministic simulation: weights/maxima/clock sequences; every Overflow/Expiration event checked against the model's physical weight and deadlines at that moment",
        "level_text": "Seeded search over weight patterns, SetMaximum changes and clock advances with the same-goroutine executor; each automatic removal event is checked for truthfulness against the model (total physical weight > maximum or entry alone exceeds it and weight > 0; deadline <= now), unbounded caches must never emit Overflow.",
        "level_note": SEQ_NOTE,
        "rule": "one case = (configuration, operation sequence). Non-trivial: at least one automatic removal (Overflow or Expiration) happened in the run. Distinct: hash of the case.",
        "components": comp(),
        "assumptions": ["when sub-operations of one call interleave with evictions, the weight total used is an upper bound (model weight + weights still to be installed by the call): sound, slightly weaker"],
    },
    "C10": {
        "technique": "deterministic simulation with loader fault injection: result shapes (value/error/not-found/panic/partial/extra/empty) x cache content shapes; statement-derived oracle on results, cache state and loader arguments",
        "level_text": "Seeded search over Get/BulkGet with injected loader outcomes against caches containing hits, misses, stale and expired-unswept entries and duplicate keys; results, post-state and the logged loader argument lists are compared with what the statement prescribes.",
        "level_note": SEQ_NOTE,
        "rule": "one case = (configuration, operation sequence biased to Get/BulkGet with loader plans). Non-trivial: at least two different loader outcomes occurred and at least one bulk call had omitted, extra or duplicate keys. Distinct: hash of the case.",
        "components": comp(),
        "assumptions": [],
    },
    "C11": {
        "technique": "deterministic simulation: reads around the refresh deadline with injected reload outcomes, manual Refresh/BulkRefresh result channels, same-goroutine executor (concurrent part: see C09 engine)",
        "level_text": "Seeded search over reads/writes/clock advances around refresh deadlines with reload outcomes value/error/not-found/panic; checks the value served, the Reload arguments (key, old value), swap/keep/remove, refresh and expiry deadlines afterwards, exactly one result per manual refresh, nil channel without a RefreshCalculator.",
        "level_note": SEQ_NOTE,
        "rule": "one case = (configuration with refresh, operation sequence). Non-trivial: at least one reload of a stale entry or one manual refresh with a bulk reload happened. Distinct: hash of the case.",
        "components": comp(),
        "assumptions": ["readers-while-reload-in-flight is exercised by the concurrent engines (C08/C09), not here"],
    },
    "C12": {
        "technique": "deterministic simulation: extreme clocks/durations (up to MaxInt64) through every calculator kind and override; exact deadline comparison via GetEntryQuietly after every step, visibility flip at the deadline",
        "level_text": "Two engines (all operations; refresh-only with forced refresh policies, where the refresh deadline of every entry is compared after every step). Loaders may take simulated time (the clock moves while they run), so deadlines of loaded values must be computed from the installation time, not from the lookup. Seeded search with clock origins up to 2^63-2^50 and durations up to MaxInt64 through creation/write/access/custom calculators, SetExpiresAfter/SetRefreshableAfter; ExpiresAtNano/RefreshableAtNano must equal op time + duration exactly where representable, otherwise the entry must stay visible; the generator steps the clock to deadline-1/deadline/deadline+1.",
        "level_note": SEQ_NOTE,
        "rule": "one case = (configuration with expiry [and refresh], operation sequence). Non-trivial: at least 5 operations touched live entries (deadline computed and compared). Distinct: hash of the case.",
        "components": comp(),
        "assumptions": ["the simulated clock never reaches MaxInt64 itself"],
    },
    "C13": {
        "technique": "deterministic simulation: TTLs from ns to years, huge clock jumps, CleanUp as an operation; after each CleanUp every entry overdue by more than one tick must have been reported (timer-wheel sweep oracle)",
        "level_text": "Four engines: sequential with the same-goroutine executor; sequential with a harness-queued executor (write events are replayed late, after the clock has moved past their deadline - found 159aebe); scripted scenarios (write, advance beyond the deadline, drain, CleanUp) over every wheel level; and a concurrent half where CleanUp (and, in half of the runs, otter's own ticker-driven clean-up goroutine) races writers and deadline-extending readers - a third of its runs are a tiny scripted sweep duel (read near the deadline vs clock step + CleanUp), and in half of the runs the final clock jump goes past every remaining deadline so that CleanUp must leave nothing behind. Seeded search with TTLs log-uniform from 1 ns to 3 years (all wheel levels, cascades), extensions, invalidations and clock jumps up to centuries; after each CleanUp at T no entry with deadline and write older than T-1.1s may remain unreported, and EstimatedSize must equal the number of unreported entries.",
        "level_note": SEQ_NOTE,
        "rule": "one case = (configuration with expiry, operation sequence with CleanUp). Non-trivial: at least one sweep check ran and at least one automatic expiration was observed. Distinct: hash of the case.",
        "components": comp(),
        "assumptions": ["entries whose deadline was shortened by a read/override are exempt, as the property's proviso says", "a sweep check in the concurrent half only counts writes that returned before the CleanUp was invoked"],
    },
    "C19": {
        "technique": "deterministic simulation with simulated stream (short reads, EOF-with-data) and clock offset between SaveCacheTo and LoadCacheFrom; statement-derived round-trip oracle",
        "level_text": "Seeded search: a source cache is built by a random program, saved to a simulated stream, the clock advances (0, 1, onto a deadline, or far), and a fresh target (same, smaller or larger maximum) loads through a reader with short reads; key/value/expiry/refresh deadlines of every live entry, nothing absent/expired, everything-when-it-fits, bound otherwise.",
        "level_note": SEQ_NOTE,
        "rule": "one case = (configuration, operation sequence, save/load plan: clock offset, target maximum, read chunking). Non-trivial: the round trip ran to completion. Distinct: hash of the case.",
        "components": comp(),
        "assumptions": ["hard I/O errors and truncation are not claimed: C19 does not speak about failing streams"],
    },
    "C20": {
        "technique": "deterministic simulation: harness-side tallies of lookups / loader invocations / automatic removals vs Stats() snapshots (exact in sequential runs, totals at quiescence in seeded concurrent schedules with expiry and background reloads)",
        "level_text": "Seeded search with a stats recorder attached; after generated operation sequences with injected loader outcomes the Stats() snapshot must equal the harness tallies exactly (hits, load successes/failures), misses up to the documented ambiguity of panicking computes, evictions within [Overflow, Overflow+Expiration]. Three concurrent engines check the totals at quiescence (hits+misses = lookups performed by the counting operations, load successes+failures = loader invocations, evictions vs removal events): plain; with expiry, clock steps and otter's ticker-driven clean-up; and with refresh on asynchronous executors, where reloads run in the background while clients replace or invalidate the entry (no background work may touch the lookup counters).",
        "level_note": SEQ_NOTE,
        "rule": "one case = (configuration with stats, operation sequence). Non-trivial: loader invocations, hits and misses all occurred. Distinct: hash of the case.",
        "components": comp(),
        "assumptions": ["a Compute whose callback panics may or may not be counted as a lookup"],
    },
    "C02": {
        "technique": "deterministic simulation: seeded schedules (random-walk / PCT / bursts / windows) over instrumented otter; recorded histories checked per key with porcupine against a sequential map with split loads and eviction events",
        "level_text": "2-4 simulated client goroutines issue Set/SetIfAbsent/GetIfPresent/GetEntry/Compute*/Invalidate/loader-backed Get on 1-6 keys while the real table grows, evicts and maintenance runs (default go executor, caller-runs, queued executor task); every context switch is decided by the seeded scheduler at sync/atomic granularity. Per-key histories stamped with the global event sequence are checked by porcupine; compute callbacks must run exactly once and see the value they replace. A second engine forces an expiry policy and lets tasks advance the clock while other operations are in flight; its histories are checked against a map with deadline intervals.",
        "level_note": CONC_NOTE,
        "rule": "one case = (configuration without reachable expiry, or with expiry and clock advances as operations; prefill, per-task programs) x one schedule. Non-trivial: at least two operations of different tasks on the same key overlapped in time and one of them writes (first engine), or operations overlapped and the clock moved (second engine). Distinct: hash of (case, context-switch sequence).",
        "components": comp(),
        "assumptions": ["a loading Get is modelled as two steps (miss observed; result installed or discarded) as in DESIGN.md; a write landing between the miss and the start of the load is therefore not protected (documented observation)",
                        "an automatic removal takes effect at some instant inside the table computation that invokes OnAtomicDeletion (between the handler call and the release of the bucket lock)",
                        "porcupine timeouts (2 s per key) are counted as unknown, never reported",
                        "asynchronous-clock form: tasks advance the clock while other operations run; the model keeps deadline bounds [lo, hi] per entry (an operation may see the entry iff hi > its earliest clock value and may miss it iff lo <= its latest), does not narrow them after an observation, treats the lock-free lookup of ComputeIfAbsent/ComputeIfPresent as a separate unreported read, widens the bounds on a racing SetExpiresAfter, and accepts an Expiration event before the deadline (DESIGN.md section 11 gives the reason for each)"],
    },
    "C04": {
        "technique": "deterministic simulation: concurrent writers/readers/SetMaximum under seeded schedules and three executor kinds; bound checked at quiescence after the fair drain phase and CleanUp",
        "level_text": "2-4 client tasks x 6-30 operations with weights {0, small, = maximum, > maximum}, weight-changing updates and SetMaximum from client tasks; after all calls returned, a fair drain phase and CleanUp (<= 3 times), the weights of the entries present must not exceed GetMaximum, no entry heavier than the maximum may be retained and no Overflow event may name a zero-weight entry.",
        "level_note": CONC_NOTE,
        "rule": "one case = (bounded configuration, prefill, per-task programs) x one schedule. Non-trivial: the cache is size- or weight-bounded and the run had more than 4 context switches. Distinct: hash of (case, context-switch sequence).",
        "components": comp(),
        "assumptions": [],
    },
    "C05": {
        "technique": "deterministic simulation: concurrent histories under seeded schedules; at quiescence derived views (WeightedSize, EstimatedSize, Hottest/Coldest) and an in-package structural audit (deques, per-queue weights, timer wheel, table) must agree",
        "level_text": "Same runs as C04 plus expiry-enabled configurations. At quiescence after CleanUp: WeightedSize = sum of weights of All(), EstimatedSize = |All()|, set(Hottest) = set(Coldest) = set(All); the audit (overlay, //go:build verif) walks the three deques, the timer wheel and the table: every table node linked in exactly one deque matching its queue tag, no dead/retired node linked, per-queue weight sums = policy counters.",
        "level_note": CONC_NOTE,
        "rule": "one case = (configuration, prefill, per-task programs) x one schedule. Non-trivial: more than 4 context switches. Distinct: hash of (case, context-switch sequence).",
        "components": comp(),
        "assumptions": ["EstimatedSize = |All()| is demanded only without expiry (expired-but-unswept entries are counted but not iterated)"],
    },
    "C06": {
        "technique": "deterministic simulation: seeded schedules and clock steps over writers/readers/timer wheel; unique value per write; at quiescence values written = present + reported, exactly-once per handler, cause vs emitting context and configuration, per-key removal order; sequential half against the reference model",
        "level_text": "Three engines: concurrent writers/invalidators/InvalidateAll/loads with sync, queued and default executors (with clock advances and CleanUp as operations); the same with forced expiry policies so that reads move deadlines while writers, the timer wheel and the clock race (this engine found bd7dbb1 and 366ca72); and a sequential half where the model names the exact cause of every event. Every written value is unique, so at quiescence (after CleanUp and executor drain) each explicitly written value must be either present or reported exactly once to OnAtomicDeletion, OnDeletion must mirror OnAtomicDeletion, the cause must be compatible with the operation in whose context the handler fired, and a value may not be reported removed before the value it replaced.",
        "level_note": CONC_NOTE,
        "rule": "one case = (configuration, prefill, per-task programs) x one schedule. Non-trivial: more than 4 context switches and at least one atomic deletion event. Distinct: hash of (case, context-switch sequence).",
        "components": comp(),
        "assumptions": ["values produced by loaders may legitimately be discarded, so only 'not both present and reported' is demanded of them"],
    },
    "C08": {
        "technique": "deterministic simulation with loader fault injection (error, not-found, panic, stall until quiescence, partial/extra bulk results) under seeded schedules; overlap rule on loader invocations, deadlock detection and bounded fair drain for termination",
        "level_text": "2-5 tasks issue Get/BulkGet/Refresh/BulkRefresh over 1-4 keys with injected loader outcomes; loaders contain scheduling points and may stall until the rest of the system is idle. Two loader invocations for one key may overlap only if a write/invalidation/eviction of the key can lie between the registration of either load and the second loader entry; every call must return (simulated deadlock detection + step budget in the fair drain phase); no in-flight record may remain and a later Get of an absent key must invoke the loader again.",
        "level_note": CONC_NOTE,
        "rule": "one case = (configuration, per-task programs with loader plans) x one schedule. Non-trivial: some Get waited for another call's load or two loader invocations of a key overlapped. Distinct: hash of (case, context-switch sequence).",
        "components": comp(),
        "assumptions": ["a loader panic inside an executor task ends that task (a stub for 'the process dies'); waiters are still checked"],
    },
    "C09": {
        "technique": "deterministic simulation: loads/refreshes with scheduling points inside the loader racing explicit writes/invalidations on 1-2 keys; stale-load rule over the history plus porcupine with split loads",
        "level_text": "2-3 tasks on one or two keys: Get/BulkGet/Refresh/BulkRefresh with loaders that yield, against Set/SetIfAbsent/Compute*/Invalidate and InvalidateAll (counted as a write of a key only when the load is a reload and that very call reported the key's removal: the property leaves its effect on loads of absent keys undefined). For every load whose loader was entered before an explicit write/invalidation W was invoked, neither a read invoked after W returned nor the final contents may show the loaded value, and a not-found load may not remove (nor a load displace) a value written after its loader was entered; plus per-key linearizability with the load split into miss/installation steps.",
        "level_note": CONC_NOTE,
        "rule": "one case = (configuration, per-task programs) x one schedule. Non-trivial: an explicit write or invalidation of the key was invoked inside a load window (counted per window position before/after the loader returned). Distinct: hash of (case, context-switch sequence).",
        "components": comp(),
        "assumptions": ["'start of the load' is the entry into the loader, as in DESIGN.md section C09"],
    },
    "C14": {
        "technique": "deterministic simulation of the drain-status protocol: default executor (otter's own go statements become simulated tasks), tiny write buffers, no CleanUp and no further calls; audit at simulated quiescence",
        "level_text": "2-5 tasks x 5-30 operations (writers, readers, SetMaximum/GetMaximum/WeightedSize, Hottest/Coldest/InvalidateAll) with write-buffer maxima 4-1024 under seeded schedules; once every call has returned and every goroutine the cache started has finished (fair drain phase), without any further call: drainStatus must be idle, the write buffer empty, the raw table within the bound, every atomic event notified, and no task may be stuck.",
        "level_note": CONC_NOTE,
        "rule": "one case = (bounded or expiring configuration with the default executor, per-task programs) x one schedule. Non-trivial: maintenance is configured and the run had more than 4 context switches. Distinct: hash of (case, context-switch sequence).",
        "components": comp(),
        "assumptions": [],
    },
    "C15": {
        "technique": "deterministic simulation of internal/hashmap directly: concurrent Get/Compute/Range/Size/Clear around grow and shrink thresholds, colliding hash seeds, parallel copy; porcupine per key + lost-key, once-only, size and range rules",
        "level_text": "2-6 simulated tasks x 10-60 operations on the real table, pre-filled to just below a grow threshold (32->64, 64->128, 128->256 with the parallel copier) or deleted down to the shrink threshold, with hash seeds from the run's stream incl. a mode that squeezes all keys into two bucket chains. Oracles: per-key linearizability (Range counts as a read of every hot key over its interval), compute function exactly once, keys inserted and never removed always found, Size = number of keys at quiescence, Range yields no key twice and nothing removed before it began.",
        "level_note": CONC_NOTE,
        "rule": "one case = (table parameters, prefill, per-task programs) x one schedule. Non-trivial: operations of different tasks on a hot key overlapped and the table was resized during the run (or started empty). Distinct: hash of (case, context-switch sequence).",
        "components": {"real": "internal/hashmap (instrumented), xruntime hasher", "stubbed": "node type and node manager are harness-defined (the table is generic over them); sync/atomic/go/maphash shims"},
        "assumptions": [],
    },
    "C16": {
        "technique": "deterministic simulation of internal/deque/queue.MPSC directly: 1-5 producers and the single consumer under seeded schedules across all growth steps; exactly-once, producer order, refusal-implies-full",
        "level_text": "Producers push unique (producer, sequence) elements, the consumer pops concurrently, (initial, max) capacity pairs from (2,4) to (16,128). Popped multiset = accepted multiset after the final drain, per-producer order preserved, a refused offer is flagged if an upper bound of the occupancy over its whole interval stays below the maximum, consumer panics are violations.",
        "level_note": CONC_NOTE,
        "rule": "one case = (capacities, producer programs, consumer program) x one schedule. Non-trivial: at least one element accepted and more than 2 context switches. Distinct: hash of (case, context-switch sequence).",
        "components": {"real": "internal/deque/queue.MPSC (instrumented)", "stubbed": "sync/atomic shims only"},
        "assumptions": [],
    },
    "C17": {
        "technique": "deterministic simulation of internal/lossy.Striped directly: 2-8 recorders vs the single draining consumer, stripe creation and table expansion under contention, pool behaviour from the run's stream",
        "level_text": "Producers Add fresh distinguishable nodes while the consumer drains; delivered entries must be a subset of the successfully recorded ones, each at most once, Len() never above stripes x 16, and after the producers finished one final drain must deliver exactly the undelivered successes.",
        "level_note": CONC_NOTE,
        "rule": "one case = (maximum stripes, producer programs, consumer program) x one schedule. Non-trivial: at least one successful Add and more than 2 context switches. Distinct: hash of (case, context-switch sequence).",
        "components": {"real": "internal/lossy ring + striped (instrumented), generated node type B", "stubbed": "sync/atomic/sync.Pool/rand shims"},
        "assumptions": ["'dropping reads never changes what an operation returns' is covered by C01/C02 runs with 1-2 stripes, whose model has no notion of a read buffer"],
    },
    "C18": {
        "technique": "simulation-controlled hash seeds (random and adversarially colliding) and random source for the real sketch and policy.admit; per-period count bounds, aging and admission rules checked after every recording",
        "level_text": "Two engines. Component engine - weakest fit for this technique family (single task, no schedule): what the simulator contributes is ownership of the two nondeterminism seams the property quantifies over - hash seeds (maphash shim, incl. a colliding mode) and the admission random source. Recording programs with ensureCapacity calls (non powers of two, resizes) are run against the real sketch: estimate >= min(recordings in the period, 15), <= 15, zero before enablement, halving on aging; real policy.admit with an injected rand: candidate > victim admits, candidate <= victim and < 6 never admits for any rand value, the jitter branch fires for at most 1/16 of uniform values. Cache-level engine: a bounded real cache with the admission random source pinned off is driven by generated programs; whenever one write made exactly one main-region entry overflow while the written key stayed, some surviving window entry (or the written key) must have a strictly greater frequency estimate than the victim - a new arrival displaces the policy's victim only if it is more popular.",
        "level_note": "Trusted: the overlay accessors (//go:build verif) expose the unexported sketch and admit unchanged. This is seeded input/seed generation rather than interleaving exploration; stated plainly.",
        "rule": "one case = (hash mode, recording program). Non-trivial: more than 10 recordings after enablement. Distinct: hash of the case.",
        "components": {"real": "sketch.go, policy.admit (instrumented), xruntime hasher", "stubbed": "maphash seeds and the policy's rand come from the run's streams"},
        "assumptions": [],
    },
}

NOT_APPLICABLE = {}


# Round 3 additions (DESIGN.md section 14): engines and oracles that were added to existing checks.
def _add(pid, tech=None, level=None, rule=None, assume=None):
    m = META[pid]
    if tech:
        m["technique"] += "; " + tech
    if level:
        m["level_text"] += " " + level
    if rule:
        m["rule"] += " " + rule
    if assume:
        m["assumptions"] = list(m["assumptions"]) + [assume]


_add("C03", tech="weakly consistent iteration rules on concurrent traversals (no entry whose deadline had certainly passed when the traversal began)")
_add("C05", tech="an engine with expiry and refresh together (stalled / failing reloads while deadlines pass)")
_add("C09", tech="loaders can stall until the rest of the system is idle, so writes land while the loader body runs",
     rule="Window positions counted: write while the loader runs / between loader return and installation / after the load finished.")
_add("C10", tech="concurrent engine: loads, bulk loads and waiters on 1-3 keys under seeded schedules (linearizability with the rule that a waiter returns only after the load it joined has finished; BulkGet result rules; failing bulk loaders that return a partial map)",
     level="A concurrent engine checks what Get / BulkGet return while other tasks load, write and invalidate the same keys.",
     rule="Concurrent engine: one case = (configuration, per-task programs) x one schedule; non-trivial: a Get waited for another task's load or a BulkGet result was judged.")
_add("C11", tech="concurrent reloads can stall (readers keep getting the old value while the reload is in flight); failing bulk reloads may return a partial map")
_add("C13", tech="concurrent engine with expiry and refresh together (a reload in flight while the sweep reaches the entry)")
_add("C14", tech="tiny programs (2-3 tasks x 1-3 operations) and the scripted 'wake duel' (a non-writer asks for a drain while a writer publishes an event) in a share of the runs")
_add("C15", tech="cache-level concurrent engines: All / Keys / Values / Hottest / Coldest racing writers, removals and table resizes, judged by weakly-consistent-iteration rules over the recorded intervals (no duplicate, no value removed before the traversal began, no entry expired before it began, no key certainly absent, every key certainly present throughout is yielded); parallelism 1-16 incl. non powers of two, 256->512 bucket growth",
     level="Two further engines run the whole cache: traversals race writers, removals, table growth and shrink (one without expiry, one with a write- or access-reset lifetime and the clock moving at barriers) and are judged by conservative interval rules.",
     rule="Cache-level engines: one case = (configuration, prefill, per-task programs) x one schedule; non-trivial: at least one All / Keys / Values traversal ran concurrently with more than 2 context switches.")
_add("C16", tech="cache-level concurrent engine with tiny write buffers: refused offers, writers that run the maintenance themselves; OnDeletion notifications of one task's explicit removals must arrive in that task's operation order under order-preserving executors",
     level="A cache-level engine checks producer order end to end (rule event.producer-order) and that nothing is forgotten (audit at quiescence).",
     rule="Cache-level engine: one case = (configuration, per-task programs) x one schedule; non-trivial: at least two notifications were order-checked.")
_add("C18", tech="sketch driven with int, string, struct and float keys (+0.0 / -0.0); cache-level sequential matching check; concurrent decision-level check: maintenance passes bracketed through the eviction lock, estimate look-ups and eviction attempts observed through optional probe points inserted by the instrumenter",
     level="A concurrent engine judges every displacement of a main-region entry at the moment it happens against the estimates the eviction loop looked up.",
     rule="Concurrent engine: one case = (bounded configuration, per-task programs) x one schedule; non-trivial: at least one displacement decision was judged.",
     assume="the concurrent admission rule relies on two optional observation points (entry of sketch.frequency and cache.evictNode) inserted into the scratch copy; a tree without those methods makes the rule silent (probe counters at zero), never alarmed")
_add("C17", tech="cache-level sequential engine: whole-API programs against the reference model with a single 16-slot read-buffer stripe, bursts of 17-40 reads and a harness-held executor, so that read events are dropped constantly; every mismatch of such a run is also C17's",
     level="A cache-level engine checks that results do not depend on dropped reads.",
     rule="Cache-level engine: one case = (configuration, operation sequence); non-trivial: at least 17 reads of live keys.")
_add("C19", tech="slow streams: every Read of LoadCacheFrom may move the clock, so load time is an interval; separate relaxed engine with stream faults (truncation, failing Read, failing Write of the save): whatever is loaded must still be a saved, unexpired entry with its deadlines")
_add("C07", tech="maxima beyond 32 bits and weights near 2^32")
# round 4
_add("C11", tech="concurrent rule refresh.fresh-entry-reloaded: a reload handed to the executor by a read is judged against the earliest possible refresh time of the old value it was given (found and repaired 48b862b)",
     level="Concurrent engine: every reload a Get / BulkGet hands to the executor must be a reload of an entry whose refresh time could have passed ('reads of fresh entries trigger nothing' under any interleaving).")
_add("C12", tech="concurrent form: at quiescence every table node's expiration and refresh time must equal (clock sample of an operation that could have set it) + (calculator duration), the sample bounded by the clock at the operation's invocation and return (rules deadline.unexplained-expiry / -refresh); two concurrent engines (expiry with clock steps and SetExpiresAfter; refresh with stalled / failing reloads on asynchronous executors)",
     level="Two concurrent engines judge the deadlines every entry ends with, whatever the interleaving of writers, deadline-extending readers, overrides, reloads and clock steps was.",
     rule="Concurrent engines: one case = (configuration with expiry or refresh, per-task programs) x one schedule; non-trivial: more than 4 context switches and at least one final deadline judged.")
for _p in META:
    META[_p]["technique"] += "; schedules drawn from random walk / PCT / bursts / windows / op-relative site-targeted preemption"
_add("C17", tech="concurrent cache-level engine: readers, writers, InvalidateAll and CleanUp race on a cache with one or two read-buffer stripes; at quiescence nothing may be left in the read buffer once maintenance ran (lossy.read-buffer-not-drained), results must be linearizable and the audit clean",
     level="A concurrent cache-level engine checks delivery at quiescence and that results do not depend on the read buffer under contention.",
     rule="Concurrent cache-level engine: one case = (bounded configuration, per-task programs) x one schedule; non-trivial: more than 4 context switches on a bounded cache.")
_add("C08", tech="rule load.joined-finished-load: a Get must not return the outcome of a failing loader call after another caller has already returned with it")
_add("C13", tech="a lost Expiration notification (atomic event without its OnDeletion at quiescence) is C13's as well")
_add("C16", tech="cache-level engine with write buffers of 4-8 events and operations that hold the eviction lock (writers exhaust their retries and help out); forgotten-event audit problems are C16's; stalled-task fault reaches bounded spin-waits")
_add("C18", tech="second decision-level rule: a main-region victim evicted without comparison while an arrival of this run of the eviction loop was never considered")
_add("C04", tech="resize mode incl. a 128-bucket table (parallel copy) just below its grow threshold with a maximum just above it")
_add("C05", tech="resize mode incl. a 128-bucket table (parallel copy)")
_add("C09", tech="second engine with expiry forced on: the write that cancels a load may itself expire before the stalled loader returns; the loaded value must still not be installed")
_add("C06", tech="fault: an OnDeletion handler that panics after taking note of every n-th notification (executors contain the panic); the other notifications must still arrive")
_add("C19", tech="third engine with a harness-held executor across the save (writes still buffered, scheduled drains not run)")
_add("C20", tech="fault: loads called with an already cancelled context (the loader must still be invoked and its failure counted once)")
_add("C10", tech="fault: loads called with an already cancelled context; rule load.result-not-produced")
_add("C16", tech="MPSC engine also with maxima and initial sizes that are not powers of two")
_add("C04", tech="the bound is judged against the maximum the callers configured last (totally ordered SetMaximum calls), not against what GetMaximum() reports (bound.maximum-not-applied)")
