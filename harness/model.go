package zzverif

import (
	"fmt"
	"math"
	"sort"

	otter "github.com/maypok86/otter/v2"
)

// Violation is one oracle rule that failed, tagged with the properties it falsifies.
type Violation struct {
	Props  []string `json:"props"`
	Rule   string   `json:"rule"`
	Detail string   `json:"detail"`
	Step   int      `json:"step"`
	Key    int      `json:"key"`
}

func (v Violation) has(prop string) bool {
	for _, p := range v.Props {
		if p == prop {
			return true
		}
	}
	return false
}

// mEntry is the model's entry: what was last written, with deadlines. An entry stays in the model
// (possibly invisible because its deadline passed) until an operation or a deletion event removes it.
type mEntry struct {
	V         int
	W         uint32
	Exp, Ref  int64
	WrittenAt int64 // clock of the write that installed it
	Shortened bool  // a read / override moved its deadline earlier (C13 proviso)
	ExpNever  bool  // now + d was not representable: must stay visible forever; numeric value free
	RefNever  bool
}

// Model is the sequential reference: a map with deadlines (DESIGN.md Appendix A).
type Model struct {
	cfg *Cfg
	m   map[int]*mEntry
	now int64
	max uint64
	// tallies (C20)
	hits, misses, loadOK, loadFail uint64
	evictions, evictWeight         uint64
	evictLo, evictWLo              uint64 // lower bounds (Overflow only)
	logErrors                      int
	viol                           []Violation
	step                           int
	alsoProp                       string // engine-level tag: every violation of this run also belongs to this property
	// coverage probes
	Probes map[string]int
}

func NewModel(cfg *Cfg) *Model {
	m := &Model{cfg: cfg, m: map[int]*mEntry{}, now: cfg.ClockOrigin, Probes: map[string]int{}}
	if cfg.bounded() {
		m.max = cfg.Max
	} else {
		m.max = math.MaxUint64
	}
	return m
}

func (m *Model) fail(props []string, rule string, key int, format string, a ...any) {
	if m.alsoProp != "" {
		props = withProp(props, m.alsoProp)
	}
	if len(m.viol) < 20 {
		m.viol = append(m.viol, Violation{Props: props, Rule: rule, Detail: fmt.Sprintf(format, a...), Step: m.step, Key: key})
	}
}

func (m *Model) visible(k int) *mEntry {
	e := m.m[k]
	if e == nil || (!e.ExpNever && e.Exp <= m.now) {
		return nil
	}
	return e
}

func (m *Model) expiredUnswept(k int) *mEntry {
	e := m.m[k]
	if e != nil && !e.ExpNever && e.Exp <= m.now {
		return e
	}
	return nil
}

func (m *Model) physWeight() uint64 {
	var s uint64
	for _, e := range m.m {
		s += uint64(e.W)
	}
	return s
}

// deadline = now ⊕ d. The statement requires exact addition where representable and "effectively
// never" otherwise.
func addDeadline(now, d int64) (int64, bool) {
	s := now + d
	if d > 0 && s < now {
		return never, true
	}
	return s, false
}

type expEvent struct {
	k, v  int
	cause otter.DeletionCause
}

// write applies Set-like semantics; returns the explicit deletion event it must produce (if any).
// kind: "set" | "reload" | "load" (load = create by a loader, same as set on an absent key).
func (m *Model) write(k, v int, kind string) *expEvent {
	cfg := m.cfg
	old := m.m[k]
	vis := m.visible(k)
	ne := &mEntry{V: v, W: cfg.weightOf(v), Exp: never, Ref: never, WrittenAt: m.now}
	var ev *expEvent
	if old != nil {
		cause := otter.CauseReplacement
		if vis == nil {
			cause = otter.CauseExpiration
		}
		ev = &expEvent{k, old.V, cause}
	}
	if cfg.withExpiry() {
		var d int64
		if vis == nil {
			d = cfg.expCreate(k, v)
			ne.Exp, ne.ExpNever = never, true
			if d > 0 {
				ne.Exp, ne.ExpNever = addDeadline(m.now, d)
			}
		} else {
			d = cfg.expUpdate(k, v)
			ne.Exp, ne.ExpNever = vis.Exp, vis.ExpNever
			if d > 0 {
				ne.Exp, ne.ExpNever = addDeadline(m.now, d)
			}
		}
	} else {
		ne.ExpNever = true
	}
	if cfg.withRefresh() {
		var d int64
		switch {
		case vis == nil:
			d = cfg.refCreate(k, v)
			ne.Ref, ne.RefNever = never, true
		case kind == "reload":
			d = cfg.refReload(k, v)
			ne.Ref, ne.RefNever = vis.Ref, vis.RefNever
		default:
			d = cfg.refUpdate(k, v)
			ne.Ref, ne.RefNever = vis.Ref, vis.RefNever
		}
		if d > 0 {
			ne.Ref, ne.RefNever = addDeadline(m.now, d)
		}
	} else {
		ne.RefNever = true
	}
	m.m[k] = ne
	return ev
}

func (m *Model) readEffect(k int) {
	e := m.visible(k)
	if e == nil || !m.cfg.withExpiry() {
		return
	}
	d := m.cfg.expRead(k, e.V)
	if d > 0 {
		ne, nv := addDeadline(m.now, d)
		if !nv && !e.ExpNever && ne < e.Exp {
			e.Shortened = true
		}
		if !nv && e.ExpNever {
			e.Shortened = true
		}
		e.Exp, e.ExpNever = ne, nv
	}
}

// remove deletes k and returns the explicit event (Invalidation for a visible entry, Expiration
// for an expired-but-unswept one).
func (m *Model) remove(k int) *expEvent {
	old := m.m[k]
	if old == nil {
		return nil
	}
	cause := otter.CauseInvalidation
	if m.visible(k) == nil {
		cause = otter.CauseExpiration
	}
	delete(m.m, k)
	return &expEvent{k, old.V, cause}
}

func (m *Model) viewOf(k int, e *mEntry) EntryView {
	return EntryView{K: k, V: e.V, W: e.W, Exp: e.Exp, Ref: e.Ref}
}

func (m *Model) visibleKeys() []int {
	var ks []int
	for k := range m.m {
		if m.visible(k) != nil {
			ks = append(ks, k)
		}
	}
	sort.Ints(ks)
	return ks
}

func causeStr(c otter.DeletionCause) string { return c.String() }

// sortedKeys returns the keys of an int-keyed map in ascending order: harness code never depends
// on Go's randomised map iteration order (it would break replay).
func sortedKeys[V any](m map[int]V) []int {
	ks := make([]int, 0, len(m))
	for k := range m {
		ks = append(ks, k)
	}
	sort.Ints(ks)
	return ks
}
