package zzverif

import (
	"fmt"
	"time"

	"verifsim/simrt"
)

type concEngine struct {
	opts *ConcOpts
}

func genConcCase(rng *simrt.Rng, o *ConcOpts) *ConcCase {
	cc := &ConcCase{Cfg: GenCfg(rng, &o.Profile)}
	cfg := &cc.Cfg
	if len(o.Executors) > 0 {
		cfg.Executor = o.Executors[rng.Intn(len(o.Executors))]
	}
	if o.Ticker && cfg.withExpiry() && rng.Intn(2) == 0 {
		cfg.Ticker = true
	}
	if rng.Intn(8) == 0 {
		cfg.AtomicHandlerPoints = 1 + rng.Intn(6) // a slow OnAtomicDeletion handler
	}
	if o.Profile.Prop == "C06" && rng.Intn(6) == 0 {
		cfg.HandlerPanicEvery = 1 + rng.Intn(3) // a handler that panics (under executors that contain it)
	}
	if o.HotKeys[1] > 0 {
		cfg.Keys = o.HotKeys[0] + rng.Intn(o.HotKeys[1]-o.HotKeys[0]+1)
	}
	prof := o.Profile
	prof.OpW = o.OpW
	prof.NoPanic = prof.NoPanic || false
	// prefill: plain sets
	np := 0
	if o.Prefill[1] > 0 {
		np = o.Prefill[0] + rng.Intn(o.Prefill[1]-o.Prefill[0]+1)
	}
	pg := NewOpGen(rng, cfg, &Profile{OpW: map[string]int{"set": 1}})
	pg.nextID = 32 + 900_000*32
	pg.ws = make([]int, len(opKinds))
	pg.ws[0] = 1
	for i := 0; i < np; i++ {
		cc.Prefill = append(cc.Prefill, pg.Next(nil))
	}
	// table growth / shrink during the run: filler keys (>= 100) bring the table to a resize threshold
	resize := 0
	var victims []int
	if o.Resize && rng.Intn(3) == 0 {
		resize = 1 + rng.Intn(3)
		cfg.InitCap = 0
		if cfg.bounded() {
			cfg.Bound = "size"
			cfg.Max = 1000
			cfg.Weights = nil
		}
		n := 106 + rng.Intn(14) // grow threshold of the initial 32-bucket table is 120 entries
		if resize == 2 {
			n = 124 + rng.Intn(6) // grown once; then emptied towards the shrink threshold (2 entries)
		}
		if resize == 3 {
			// a table of 128 buckets just below its grow threshold (480 entries): the growth during the
			// run is copied by several goroutines (generator bias only - if the tree sizes its tables
			// differently the run simply does not resize). A bounded cache gets a maximum just above the
			// threshold, so that an entry the policy loses track of shows as an exceeded bound.
			cfg.InitCap = 480
			n = 476 + rng.Intn(5)
			if cfg.bounded() {
				// the policy is at its limit from the first fresh key on: every insert evicts (one more
				// remover at work while the table is copied) and an entry the policy has lost track of
				// shows at once as an exceeded bound
				n = 478 + rng.Intn(3)
				cfg.Max = uint64(n + 1 + rng.Intn(2))
			}
			if cfg.Parallelism < 2 {
				cfg.Parallelism = 2 + rng.Intn(3)
			}
			// removers linger in their handler (node retired, slot not yet cleared) while the table is copied
			cfg.AtomicHandlerPoints = 8 + rng.Intn(40)
		}
		for i := 0; i < n; i++ {
			cc.Prefill = append(cc.Prefill, Op{Kind: "set", K: 100 + i, V: pg.newVal()})
		}
		if resize == 2 {
			keep := 1 + rng.Intn(8)
			for i := 0; i < n-keep; i++ {
				cc.Prefill = append(cc.Prefill, Op{Kind: "invalidate", K: 100 + i})
			}
			for i := n - keep; i < n; i++ {
				victims = append(victims, 100+i)
			}
		}
	}
	nt := o.Tasks[0] + rng.Intn(o.Tasks[1]-o.Tasks[0]+1)
	opsLo, opsHi := o.OpsPer[0], o.OpsPer[1]
	if o.TinyP > 0 && rng.Intn(o.TinyP) == 0 {
		// tiny programs: two or three tasks with one to three operations each on at most two keys -
		// the schedule space of such a run is small enough for the seeded scheduler to reach
		// windows of a few instructions (a status word read before a lock, a CAS after a load)
		nt = 2 + rng.Intn(2)
		opsLo, opsHi = 1, 3
		if cfg.Keys > 2 {
			cfg.Keys = 1 + rng.Intn(2)
		}
		if len(cc.Prefill) > 3 {
			cc.Prefill = cc.Prefill[:rng.Intn(4)]
		}
		for i := range cc.Prefill {
			cc.Prefill[i].K %= cfg.Keys
		}
		resize = 0
	}
	roundLen := 2 + rng.Intn(5)
	rounds := 0
	for t := 0; t < nt; t++ {
		g := NewOpGen(rng, cfg, &prof)
		g.nextID = 32 + (t+1)*100_000*32
		n := opsLo + rng.Intn(opsHi-opsLo+1)
		var ops []Op
		for i := 0; i < n; i++ {
			op := g.Next(nil)
			if op.Load != nil {
				if rng.Intn(3) == 0 {
					op.Load.Points = 1 + rng.Intn(6)
				}
				if o.AllowStall && rng.Intn(stallP(o)) == 0 {
					op.Load.Stall = true
				}
			}
			if op.Kind == "advance" && (o.AsyncClock || (o.AimAdvance && cfg.ExpD > 0 && rng.Intn(2) == 0)) {
				// steps that land on / around the deadlines of entries written a moment ago
				switch rng.Intn(7) {
				case 0:
					op.D = cfg.ExpD
				case 1:
					op.D = cfg.ExpD - 1
				case 2:
					op.D = cfg.ExpD/2 + 1
				case 3:
					op.D = cfg.ExpD + int64(rng.Intn(3))
				case 4:
					op.D = cfg.ExpD/3 + 1
				default:
					op.D = 1 + int64(rng.Intn(2_200_000_000))
				}
				if op.D <= 0 {
					op.D = 1
				}
			}
			ops = append(ops, op)
			if o.Rounds && (i+1)%roundLen == 0 && i+1 < n {
				ops = append(ops, Op{Kind: "barrier"})
			}
			switch {
			case resize == 1 && rng.Intn(2) == 0:
				ops = append(ops, Op{Kind: "set", K: 1000 + t*100 + i, V: g.newVal()}) // fresh key: pushes growth
			case resize == 2 && len(victims) > 0 && rng.Intn(2) == 0:
				ops = append(ops, Op{Kind: "invalidate", K: victims[0]})
				victims = victims[1:]
			case resize == 3:
				// fresh keys push the big table over its grow threshold while other tasks remove or
				// rewrite filler keys (the buckets being copied are busy)
				switch rng.Intn(4) {
				case 0, 1: // (a growth is only triggered by an insert that finds its bucket full)
					ops = append(ops, Op{Kind: "set", K: 1000 + t*100 + i, V: g.newVal()})
				case 2:
					ops = append(ops, Op{Kind: "invalidate", K: 100 + rng.Intn(400)})
				default:
					ops = append(ops, Op{Kind: "set", K: 100 + rng.Intn(400), V: g.newVal()})
				}
			}
		}
		cc.Tasks = append(cc.Tasks, ops)
	}
	if o.Rounds {
		// every task needs the same number of barriers; task 0 carries the clock advances, which
		// land on / around the deadlines (ExpD) or are a few ticks
		for _, t := range cc.Tasks {
			nb := 0
			for _, op := range t {
				if op.Kind == "barrier" {
					nb++
				}
			}
			if nb > rounds {
				rounds = nb
			}
		}
		for ti := range cc.Tasks {
			nb := 0
			for _, op := range cc.Tasks[ti] {
				if op.Kind == "barrier" {
					nb++
				}
			}
			for ; nb < rounds; nb++ {
				cc.Tasks[ti] = append(cc.Tasks[ti], Op{Kind: "barrier"})
			}
		}
		for i := range cc.Tasks[0] {
			if cc.Tasks[0][i].Kind == "barrier" {
				var d int64
				switch rng.Intn(5) {
				case 0:
					d = cfg.ExpD
				case 1:
					d = cfg.ExpD - 1
				case 2:
					d = cfg.ExpD / 2
				case 3:
					d = cfg.ExpD + int64(rng.Intn(3))
				default:
					d = int64(1+rng.Intn(5)) << 30
				}
				if d < 1 {
					d = 1
				}
				cc.Tasks[0][i].D = d
			}
		}
	}
	if resize == 3 && !o.Rounds && rng.Intn(2) == 0 {
		// the "resize duel": one task inserts fresh keys until the big table grows, the others remove
		// filler keys all the while - each removal lingers in its (slow) atomic handler with the node
		// retired and the slot not yet cleared, which is where a copier must not look without the lock
		cc.Tasks = nil
		var ins []Op
		for i := 0; i < 6+rng.Intn(8); i++ {
			ins = append(ins, Op{Kind: "set", K: 2000 + i, V: pg.newVal()})
		}
		if cfg.bounded() {
			// ... and keeps inserting until the policy is at its maximum again whatever the removers
			// took out, so that an entry the policy does not know of shows as an exceeded bound
			for i := 0; i < 50; i++ {
				ins = append(ins, Op{Kind: "set", K: 3000 + i, V: pg.newVal()})
			}
		}
		cc.Tasks = append(cc.Tasks, ins)
		for t := 0; t < 1+rng.Intn(3); t++ {
			var rm []Op
			for i := 0; i < 6+rng.Intn(10); i++ {
				k := 100 + rng.Intn(460)
				if rng.Intn(4) == 0 {
					rm = append(rm, Op{Kind: "set", K: k, V: pg.newVal()})
				} else {
					rm = append(rm, Op{Kind: "invalidate", K: k})
				}
			}
			cc.Tasks = append(cc.Tasks, rm)
		}
	}
	if (o.SweepCheck || o.Duel) && rng.Intn(3) == 0 {
		sweepDuel(rng, cc, pg)
	}
	if o.WakeDuel && rng.Intn(4) == 0 {
		wakeDuel(rng, cc, pg)
	}
	if o.IterDuel && rng.Intn(4) == 0 {
		iterDuel(rng, cc, pg)
	}
	return cc
}

// iterDuel replaces the generated programs by a tiny "traversal vs rewrite with a shorter life"
// scenario: value-dependent lifetimes (a long one for the prefilled values, a short one for the
// rewrites), all keys in two bucket chains, one task traversing slowly while another rewrites a key
// and moves the clock past the new, short deadline but not past the old, long one. The traversal
// has snapshotted the old node; whatever it yields for that key afterwards must not be expired.
func iterDuel(rng *simrt.Rng, cc *ConcCase, pg *OpGen) {
	cfg := &cc.Cfg
	long := int64(1)<<32 + int64(rng.Intn(1<<20))
	short := int64(50 + rng.Intn(5000))
	cfg.Expiry = "custom"
	cfg.ExpD = long
	cfg.ExpTbl = [3][]int64{{long, short}, {long, short}, nil}
	if cfg.Bound == "weight" {
		cfg.Bound, cfg.Weights = "size", nil
	}
	if cfg.bounded() {
		cfg.Max = 100
	}
	cfg.HashMode = 1
	cfg.Keys = 3 + rng.Intn(4)
	val := func(k int, wantShort bool) int {
		v := pg.newVal()
		if ((k*7+v)%2 == 1) != wantShort {
			v++
		}
		return v
	}
	cc.Prefill = nil
	for k := 0; k < cfg.Keys; k++ {
		cc.Prefill = append(cc.Prefill, Op{Kind: "set", K: k, V: val(k, false)})
	}
	trav := func() Op { return Op{Kind: []string{"all", "all", "values"}[rng.Intn(3)]} }
	rewrite := func() []Op {
		k := rng.Intn(cfg.Keys)
		return []Op{{Kind: "set", K: k, V: val(k, true)}, {Kind: "advance", D: short + int64(rng.Intn(4))}}
	}
	cc.Tasks = [][]Op{{trav()}, rewrite()}
	if rng.Intn(2) == 0 {
		cc.Tasks = append(cc.Tasks, rewrite())
	}
	if rng.Intn(3) == 0 {
		cc.Tasks[0] = append(cc.Tasks[0], trav())
	}
}

// wakeDuel replaces the generated programs by a tiny "who schedules the maintenance" scenario
// (C14): a caller that is not a writer asks for a drain - it read an expired entry, or its read
// did not fit into the (single, 16-slot) read buffer - at the moment a writer publishes an event
// and asks for a drain as well. Both go through the drain-status word and the eviction lock's
// TryLock; whatever the interleaving, one of them has to leave the write scheduled.
func wakeDuel(rng *simrt.Rng, cc *ConcCase, pg *OpGen) {
	cfg := &cc.Cfg
	cfg.Keys = 2 + rng.Intn(2)
	cc.Prefill = nil
	for k := 0; k < cfg.Keys; k++ {
		cc.Prefill = append(cc.Prefill, Op{Kind: "set", K: k, V: pg.newVal()})
	}
	writer := func() Op {
		k := rng.Intn(cfg.Keys + 1)
		switch rng.Intn(5) {
		case 0:
			return Op{Kind: "invalidate", K: k}
		case 1:
			return Op{Kind: "compute", K: k, V: pg.newVal(), Comp: "write"}
		}
		return Op{Kind: "set", K: k, V: pg.newVal()}
	}
	var a []Op
	if cfg.withExpiry() && cfg.ExpD > 0 && cfg.Expiry != "custom" && rng.Intn(2) == 0 {
		// a read of an expired, not yet swept entry asks for a drain
		a = []Op{{Kind: "advance", D: cfg.ExpD + int64(rng.Intn(3))}, {Kind: "get", K: 0}}
		if rng.Intn(2) == 0 {
			a = append(a, Op{Kind: "get", K: 1})
		}
	} else {
		// more reads than the read buffer holds: the one that does not fit asks for a drain
		cfg.StripedMax = 1
		n := 15 + rng.Intn(6)
		for i := 0; i < n; i++ {
			a = append(a, Op{Kind: "get", K: rng.Intn(cfg.Keys)})
		}
	}
	b := []Op{writer()}
	if rng.Intn(3) == 0 {
		b = append(b, writer())
	}
	cc.Tasks = [][]Op{a, b}
	if rng.Intn(3) == 0 {
		cc.Tasks = append(cc.Tasks, []Op{writer()})
	}
}

// sweepDuel replaces the generated programs by a tiny scenario (C13's proviso "reads only ever
// extend deadlines" in its concurrent form): an entry under expire-after-access is brought close
// to its deadline, one task reads it (sampling the clock before the deadline), another task moves
// the clock past the deadline and sweeps. Few operations, so the schedules in which the read's
// deadline extension lands inside the sweep are a sizeable fraction of all schedules.
func sweepDuel(rng *simrt.Rng, cc *ConcCase, pg *OpGen) {
	cfg := &cc.Cfg
	cfg.Expiry = "accessing"
	cfg.ExpTbl = [3][]int64{}
	cfg.ExpD = tickSlack*int64(2+rng.Intn(70)) + int64(rng.Intn(1000))
	cfg.Keys = 1 + rng.Intn(2)
	cc.Prefill = nil
	for k := 0; k < cfg.Keys; k++ {
		cc.Prefill = append(cc.Prefill, Op{Kind: "set", K: k, V: pg.newVal()})
	}
	reader := func() Op {
		switch rng.Intn(4) {
		case 0:
			return Op{Kind: "setifabsent", K: 0, V: pg.newVal()}
		case 1:
			return Op{Kind: "getentry", K: 0}
		}
		return Op{Kind: "get", K: 0}
	}
	near := cfg.ExpD - 1 - int64(rng.Intn(4))
	a := []Op{{Kind: "advance", D: near}, reader()}
	if rng.Intn(2) == 0 {
		a = append(a, reader())
	}
	b := []Op{{Kind: "advance", D: 1 + int64(rng.Intn(int(2*tickSlack)))}, {Kind: "cleanup"}}
	if rng.Intn(2) == 0 {
		b = append(b, Op{Kind: "advance", D: tickSlack + int64(rng.Intn(int(tickSlack)))}, Op{Kind: "cleanup"})
	}
	if cfg.bounded() && rng.Intn(2) == 0 {
		// lowering the maximum to zero afterwards flushes everything the policy knows about
		b = append(b, Op{Kind: "setmax", D: 0})
	}
	cc.Tasks = [][]Op{a, b}
	if rng.Intn(2) == 0 {
		cc.Tasks = append(cc.Tasks, []Op{reader()})
	}
}

func (e *concEngine) Run(a *agg, spec *PropSpec, seed uint64) {
	o := e.opts
	rng := simrt.NewRng(seed, 20)
	if a.opts.Tier == "thorough" && rng.Intn(2) == 0 {
		// deeper bounds in half of the thorough runs: one more task, programs up to twice as long
		deep := *o
		deep.Tasks[1]++
		deep.OpsPer[1] *= 2
		o = &deep
	}
	cc := genConcCase(&rng, o)
	cc.Mode = &ConcMode{Lin: o.Lin, Rounds: o.Rounds, NoCleanup: o.NoCleanup, SweepCheck: o.SweepCheck, AsyncClock: o.AsyncClock, Admission: o.Admission}
	if o.SweepCheck {
		cc.Mode.FarSweep = rng.Intn(2) == 0
	}
	srng := simrt.NewRng(seed, 21)
	if a.horizon < 200 {
		a.horizon = 1500
	}
	strat := simrt.DrawStrategy(&srng, uint64(a.horizon))
	out := runConc(seed, cc, nil, false, o, strat)
	a.st.Runs++
	if a.det {
		a.detLines = append(a.detLines, fmt.Sprintf("%d %016x %d %016x %d", seed, out.LogHash, out.Steps, out.SwitchHash, len(out.Viol)))
		return
	}
	a.horizon = (a.horizon*7 + float64(out.Steps)) / 8
	a.st.SimSteps += out.Steps
	a.st.Switches += out.Switches
	a.st.SimTimeNs += float64(out.SimTime)
	for _, t := range cc.Tasks {
		a.st.OpsExecuted += len(t)
	}
	mergeCounts(a.st.Probes, out.Probes)
	mergeCounts(a.st.Faults, out.Faults)
	mergeCounts(a.st.Points, out.Points)
	a.st.Strategies[out.Strategy]++
	a.st.LinChecked += out.LinChecked
	a.st.LinUnknown += out.LinUnknown
	a.scheds[out.SwitchHash] = struct{}{}
	nt := out.Overlaps > 0
	if o.NonTrivial != nil {
		nt = o.NonTrivial(out)
	}
	if nt {
		h := simrt.Mix(hashJSON(cc), out.SwitchHash)
		if _, dup := a.hashes[h]; !dup {
			a.hashes[h] = struct{}{}
			a.st.NonTrivial++
		}
	}
	if len(a.st.Samples) < 2 && out.Switches > 3 {
		var progs [][]string
		for _, t := range cc.Tasks {
			var ops []string
			for i, op := range t {
				if i >= 8 {
					ops = append(ops, "...")
					break
				}
				ops = append(ops, op.String())
			}
			progs = append(progs, ops)
		}
		nd := len(out.Rec)
		if nd > 12 {
			nd = 12
		}
		a.st.Samples = append(a.st.Samples, map[string]any{"engine": "conc", "seed": seed, "config": cc.Cfg, "prefill_ops": len(cc.Prefill), "tasks": progs,
			"strategy": out.Strategy, "scheduling_points": out.Steps, "context_switches": out.Switches, "first_deviations": out.Rec[:nd], "deviations": len(out.Rec)})
	}
	if out.Infra != "" {
		if len(a.st.InfraErrors) < 5 {
			a.st.InfraErrors = append(a.st.InfraErrors, fmt.Sprintf("seed %d: %s", seed, out.Infra))
		}
		return
	}
	rel, foreign := relevant(out.Viol, spec.ID)
	mergeCounts(a.st.Foreign, foreign)
	if len(rel) == 0 {
		return
	}
	v := rel[0]
	if kd := a.knownMatch(v); kd != "" {
		if len(a.st.Known) < 20 {
			a.st.Known = append(a.st.Known, ViolationRec{Violation: v, Seed: seed, Known: kd})
		}
		a.st.Probes["known-finding-hits"]++
		return
	}
	if out.RecOver {
		a.st.InfraErrors = append(a.st.InfraErrors, fmt.Sprintf("seed %d: violation %s found but the deviation list overflowed; not replayable", seed, v.Rule))
		return
	}
	// replay must reproduce before anything is reported
	rout := runConc(seed, cc, out.Rec, true, o, nil)
	if !hasRule(rout.Viol, spec.ID, v.Rule) {
		a.st.InfraErrors = append(a.st.InfraErrors, fmt.Sprintf("seed %d: violation %s (%s) did not reproduce under replay (steps %d vs %d)", seed, v.Rule, v.Detail, out.Steps, rout.Steps))
		return
	}
	a.nviol++
	mcc, msched := minimizeConc(seed, cc, out.Rec, o, spec.ID, v.Rule, a.opts.MinimizeS)
	mout := runConc(seed, mcc, msched, true, o, nil)
	mv := v
	for _, x := range mout.Viol {
		if x.Rule == v.Rule && x.has(spec.ID) {
			mv = x
			break
		}
	}
	rp := &Replay{V: 1, Property: spec.ID, Engine: "conc", Seed: seed, Conc: mcc, Schedule: msched,
		Expect: ReplayExpect{Rule: mv.Rule, Key: mv.Key, Step: mv.Step, LogHash: fmt.Sprintf("%016x", mout.LogHash), Detail: mv.Detail},
		Note:   fmt.Sprintf("found with strategy %s; %d deviations before minimisation, %d after", out.Strategy, len(out.Rec), len(msched))}
	path := a.writeReplay(rp)
	a.st.Violations = append(a.st.Violations, ViolationRec{Violation: mv, Seed: seed, Replay: path})
}

// ddminSlice removes chunks of xs while test(candidate) stays true.
func ddminSlice[T any](xs []T, deadline time.Time, test func([]T) bool) []T {
	n := 2
	for len(xs) >= 1 && time.Now().Before(deadline) {
		if n > len(xs) {
			n = len(xs)
		}
		if n == 0 {
			break
		}
		chunk := (len(xs) + n - 1) / n
		reduced := false
		for i := 0; i < len(xs) && time.Now().Before(deadline); i += chunk {
			j := i + chunk
			if j > len(xs) {
				j = len(xs)
			}
			cand := make([]T, 0, len(xs)-(j-i))
			cand = append(cand, xs[:i]...)
			cand = append(cand, xs[j:]...)
			if test(cand) {
				xs = cand
				if n > 2 {
					n--
				}
				reduced = true
				break
			}
		}
		if !reduced {
			if chunk <= 1 {
				break
			}
			n *= 2
		}
	}
	return xs
}

func cloneConc(cc *ConcCase) *ConcCase {
	c := &ConcCase{Cfg: cc.Cfg, Prefill: append([]Op(nil), cc.Prefill...), Mode: cc.Mode}
	for _, t := range cc.Tasks {
		c.Tasks = append(c.Tasks, append([]Op(nil), t...))
	}
	return c
}

func minimizeConc(seed uint64, cc *ConcCase, sched []simrt.Deviation, o *ConcOpts, prop, rule string, budgetS float64) (*ConcCase, []simrt.Deviation) {
	if budgetS <= 0 {
		budgetS = 15
	}
	deadline := time.Now().Add(time.Duration(budgetS * float64(time.Second)))
	fails := func(c *ConcCase, s []simrt.Deviation) bool {
		out := runConc(seed, c, s, true, o, nil)
		return hasRule(out.Viol, prop, rule)
	}
	cur := cloneConc(cc)
	cs := append([]simrt.Deviation(nil), sched...)
	if !fails(cur, cs) {
		return cc, sched
	}
	cs = ddminSlice(cs, deadline, func(s []simrt.Deviation) bool { return fails(cur, s) })
	// ops per task (task indices are kept so that the schedule's task ids stay meaningful)
	for round := 0; round < 2; round++ {
		for ti := range cur.Tasks {
			ti := ti
			cur.Tasks[ti] = ddminSlice(cur.Tasks[ti], deadline, func(ops []Op) bool {
				c := cloneConc(cur)
				c.Tasks[ti] = ops
				return fails(c, cs)
			})
		}
		cur.Prefill = ddminSlice(cur.Prefill, deadline, func(ops []Op) bool {
			c := cloneConc(cur)
			c.Prefill = ops
			return fails(c, cs)
		})
		cs = ddminSlice(cs, deadline, func(s []simrt.Deviation) bool { return fails(cur, s) })
	}
	try := func(mut func(c *Cfg)) {
		if !time.Now().Before(deadline) {
			return
		}
		c := cloneConc(cur)
		mut(&c.Cfg)
		if fails(c, cs) {
			cur = c
		}
	}
	try(func(c *Cfg) { c.Stats = false })
	try(func(c *Cfg) { c.InitCap = 0 })
	try(func(c *Cfg) { c.HashMode = 0 })
	try(func(c *Cfg) { c.PoolMode = 1 })
	try(func(c *Cfg) { c.Parallelism = 1 })
	try(func(c *Cfg) { c.Refresh = "none" })
	try(func(c *Cfg) { c.Expiry = "none" })
	return cur, cs
}

func stallP(o *ConcOpts) int {
	if o.StallP > 0 {
		return o.StallP
	}
	return 12
}
