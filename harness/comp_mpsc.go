package zzverif

import (
	"fmt"

	"github.com/maypok86/otter/v2/internal/deque/queue"
	"verifsim/simrt"
)

type qItem struct{ p, seq int }

type qPush struct {
	p, seq    int
	call, ret uint64
	ok        bool
}

type qPop struct {
	call, ret uint64
	item      *qItem
}

// runMPSC: tasks 0..n-2 are producers (ops "push" xN), the last task is the consumer.
func (cr *compRun) runMPSC() {
	w, cc := cr.w, cr.cc
	q := queue.NewMPSC[qItem](uint32(cc.Initial), uint32(cc.Max))
	// "an offer is refused only when the buffer holds its maximum number of events": the maximum the
	// caller asked for (the queue may round it up; refusing below the requested maximum is the violation)
	capacity := cc.Max
	var pushes []*qPush
	var pops []*qPop
	producersDone := 0
	nprod := len(cc.Tasks) - 1
	var tasks []*simrt.Task
	for ti := 0; ti < nprod; ti++ {
		ti := ti
		ops := cc.Tasks[ti]
		tasks = append(tasks, w.Spawn(fmt.Sprintf("p%d", ti), func() {
			seq := 0
			for _, op := range ops {
				simrt.BeginOp(simrt.HashString(op.Kind))
				switch op.Kind {
				case "push":
					for i := 0; i < op.N; i++ {
						it := &qItem{ti, seq}
						seq++
						r := &qPush{p: ti, seq: it.seq, call: w.Tick()}
						pushes = append(pushes, r)
						r.ok = q.TryPush(it)
						r.ret = w.Tick()
					}
				case "yield":
					simrt.Yield()
				}
			}
			producersDone++
		}))
	}
	consumer := w.Spawn("consumer", func() {
		pop := func() bool {
			r := &qPop{call: w.Tick()}
			r.item = q.TryPop()
			r.ret = w.Tick()
			if r.item != nil {
				pops = append(pops, r)
				w.Log(uint64(r.item.p)<<32 ^ uint64(r.item.seq))
				return true
			}
			return false
		}
		for _, op := range cc.Tasks[nprod] {
			simrt.BeginOp(simrt.HashString(op.Kind))
			switch op.Kind {
			case "pop":
				for i := 0; i < op.N; i++ {
					pop()
				}
			case "yield":
				simrt.Yield()
			}
		}
		// final drain: keep popping until every producer is done and the queue is empty
		for {
			if !pop() {
				if producersDone == nprod {
					if !pop() {
						return
					}
					continue
				}
				simrt.Yield()
			}
		}
	})
	for _, t := range tasks {
		w.Join(t)
	}
	w.SetFair(true)
	w.Join(consumer)
	sizeAtEnd := q.Size()
	// oracles
	accepted := map[[2]int]bool{}
	refused := 0
	for _, p := range pushes {
		if p.ok {
			accepted[[2]int{p.p, p.seq}] = true
		} else {
			refused++
		}
	}
	seen := map[[2]int]int{}
	last := map[int]int{}
	for i := range last {
		last[i] = -1
	}
	for _, r := range pops {
		k := [2]int{r.item.p, r.item.seq}
		seen[k]++
		if !accepted[k] {
			cr.fail(P("C16"), "mpsc.unknown-element", r.item.p, "consumer received (%d,%d) which no producer had accepted", r.item.p, r.item.seq)
		}
		if seen[k] > 1 {
			cr.fail(P("C16"), "mpsc.duplicate", r.item.p, "element (%d,%d) was delivered %d times", r.item.p, r.item.seq, seen[k])
		}
		if prev, ok := last[r.item.p]; ok && r.item.seq <= prev {
			cr.fail(P("C16"), "mpsc.order", r.item.p, "producer %d: element %d delivered after element %d", r.item.p, r.item.seq, prev)
		}
		last[r.item.p] = r.item.seq
	}
	for k := range accepted {
		if seen[k] == 0 {
			cr.fail(P("C16", "C05"), "mpsc.lost", k[0], "element (%d,%d) was accepted but never delivered (queue reports size %d after the final drain)", k[0], k[1], sizeAtEnd)
		}
	}
	if sizeAtEnd != 0 {
		cr.fail(P("C16"), "mpsc.size", -1, "Size()=%d after the final drain", sizeAtEnd)
	}
	// a refusal is legitimate only if the buffer could have been full at some point of the offer
	for _, p := range pushes {
		if p.ok {
			continue
		}
		acc := 0
		for _, o := range pushes {
			if o.ok && o.call <= p.ret {
				acc++
			}
		}
		popped := 0
		for _, r := range pops {
			if r.ret <= p.call {
				popped++
			}
		}
		cr.probe["mpsc-refusals"]++
		if acc-popped < capacity {
			cr.fail(P("C16"), "mpsc.spurious-refusal", p.p, "offer (%d,%d) refused although at most %d of %d slots could be occupied during it", p.p, p.seq, acc-popped, capacity)
		}
	}
	cr.probe["mpsc-accepted"] += len(accepted)
	if len(accepted) > int(cc.Initial) {
		cr.probe["mpsc-grew"]++
	}
	cr.out.NonTrivial = len(accepted) > 0 && cr.w.Switches > 2
}

func genMPSCCase(rng *simrt.Rng) *CompCase {
	cc := &CompCase{Kind: "mpsc", Parallelism: 4}
	cc.Initial = []int{2, 2, 4, 4, 8, 16}[rng.Intn(6)]
	maxs := []int{4, 8, 16, 32, 64, 128}
	cc.Max = maxs[rng.Intn(len(maxs))]
	for cc.Max < cc.Initial {
		cc.Max *= 2
	}
	if rng.Intn(4) == 0 {
		// "all initial/maximum capacity pairs": maxima (and initial sizes) that are not powers of two
		cc.Max = []int{5, 6, 7, 9, 12, 24, 100}[rng.Intn(7)]
		cc.Initial = []int{2, 3, 4, 5}[rng.Intn(4)]
		if cc.Initial > cc.Max {
			cc.Initial = 2
		}
	}
	nprod := 1 + rng.Intn(5)
	total := 0
	for p := 0; p < nprod; p++ {
		var ops []COp
		n := 1 + rng.Intn(6)
		for i := 0; i < n; i++ {
			if rng.Intn(5) == 0 {
				ops = append(ops, COp{Kind: "yield"})
			}
			k := 1 + rng.Intn(12)
			if rng.Intn(6) == 0 {
				k = cc.Max + rng.Intn(4) // try to hit the full boundary
			}
			ops = append(ops, COp{Kind: "push", N: k})
			total += k
		}
		cc.Tasks = append(cc.Tasks, ops)
	}
	var cons []COp
	n := rng.Intn(6)
	for i := 0; i < n; i++ {
		if rng.Intn(3) == 0 {
			cons = append(cons, COp{Kind: "yield"})
		}
		cons = append(cons, COp{Kind: "pop", N: 1 + rng.Intn(8)})
	}
	cc.Tasks = append(cc.Tasks, cons)
	return cc
}
