#!/bin/bash
# selftest.sh [--quick]: (1) determinism of the simulator: the same seeds give identical event logs
# alone / at another batch position / under GOMAXPROCS 1, 4, 16, in >= 30 processes;
# (2) translation validation of the instrumenter: the repository's own tests pass on the
# instrumented tree in pass-through mode. Exit 0 ok, 1 self-test failed, 2 build trouble.
set -u
VERIF="$(cd "$(dirname "$0")" && pwd)"
REPO="${VERIF_REPO:-/repo}"
SCR="${VERIF_SCRATCH:-/var/tmp/verif-scratch}/selftest-$$"
N=64; [ "${1:-}" = "--quick" ] && N=16
export GOFLAGS=-mod=mod GOPROXY=off GOSUMDB=off GOTOOLCHAIN=local PATH=/opt/veriftools/go1.26.8/bin:$PATH
"$VERIF/build.sh" "$SCR" > /dev/null || { rm -rf "$SCR"; exit 2; }
rc=0
for p in C01 C02 C03 C04 C05 C06 C07 C08 C09 C10 C11 C12 C13 C14 C15 C16 C17 C18 C19 C20; do
  ref="$SCR/det-$p-ref.txt"
  GOMAXPROCS=4 "$SCR/simworker" -prop $p -seed 4242 -det $N > "$ref" || { echo "selftest: worker failed for $p"; rc=1; continue; }
  GOMAXPROCS=1 "$SCR/simworker" -prop $p -seed 4242 -det $N > "$SCR/det-$p-1.txt"
  GOMAXPROCS=16 "$SCR/simworker" -prop $p -seed 4242 -det $N -detrev > "$SCR/det-$p-16r.txt"
  for f in "$SCR/det-$p-1.txt" "$SCR/det-$p-16r.txt"; do
    if ! cmp -s "$ref" "$f"; then echo "selftest: NONDETERMINISM in $p ($(basename $f))"; diff "$ref" "$f" | head -5; rc=1; fi
  done
  echo "selftest: determinism $p: $N seeds x 3 processes (GOMAXPROCS 4/1/16, forward and reversed batch order) identical: $(cmp -s "$ref" "$SCR/det-$p-1.txt" && cmp -s "$ref" "$SCR/det-$p-16r.txt" && echo yes || echo NO)"
done
# every seed alone in a fresh process for two engines (position independence)
for p in C02 C14; do
  bad=0
  for i in $(seq 0 9); do
    # seed i of the batch is Mix(4242,i); DetRun with n=1 and base chosen so that index 0 maps to it is not
    # expressible; instead run prefixes of different length and compare the common lines
    GOMAXPROCS=$((1 + i % 3 * 7)) "$SCR/simworker" -prop $p -seed 4242 -det $((i + 1)) > "$SCR/pre.txt"
    if ! grep -qFf "$SCR/pre.txt" "$SCR/det-$p-ref.txt" || [ "$(grep -cFf "$SCR/pre.txt" "$SCR/det-$p-ref.txt")" != "$(wc -l < "$SCR/pre.txt")" ] || [ "$(wc -l < "$SCR/pre.txt")" -lt "$((i + 1))" ]; then bad=1; fi
  done
  [ $bad = 0 ] && echo "selftest: batch-position independence $p: ok (10 fresh processes)" || { echo "selftest: batch-position dependence in $p"; rc=1; }
done
if [ "${1:-}" != "--quick" ]; then
  # pass-through validation: repository tests on the instrumented tree (test files get import substitution only)
  PT="$SCR/pt"; mkdir -p "$PT/otter"
  (cd "$REPO" && git ls-files -z | grep -zv '^cmd/\|^benchmarks/\|^plugin/\|^docs/' | rsync -a --from0 --files-from=- "$REPO/" "$PT/otter/")
  cp -r "$VERIF/sim" "$PT/verifsim"
  (cd "$PT/otter" && printf '\nrequire verifsim v0.0.0\n\nreplace verifsim => ../verifsim\n' >> go.mod && "$VERIF/bin/simrewrite" -dir . -tests > /dev/null) || { echo "selftest: instrumenting with tests failed"; rm -rf "$SCR"; exit 2; }
  # the repository's suite has flaky tests of its own (DESIGN.md section 11): up to two attempts, as in seeded/confirm.sh
  if (cd "$PT/otter" && { GOGC=off go test -vet=off -count=1 -timeout 300s ./... > "$SCR/pt.log" 2>&1 || GOGC=off go test -vet=off -count=1 -timeout 300s ./... > "$SCR/pt.log" 2>&1; }); then
    echo "selftest: repository test suite passes on the instrumented tree in pass-through mode"
  else
    echo "selftest: repository tests FAIL on the instrumented tree"; grep -E '^(FAIL|---|panic)' "$SCR/pt.log" | head; rc=1
  fi
fi
rm -rf "$SCR"; rmdir "$(dirname "$SCR")" 2>/dev/null
exit $rc
