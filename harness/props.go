package zzverif

import (
	"fmt"
	"time"

	"verifsim/simrt"
)

// Engine runs one simulated execution (or a small batch) for a property and aggregates into a.
type Engine interface {
	Run(a *agg, spec *PropSpec, seed uint64)
}

// PropSpec binds a property to its engines.
type PropSpec struct {
	ID      string
	Engines []Engine
	// conc-engine options
	Conc *ConcOpts
}

// Props is filled by init functions of the engine files.
var Props = map[string]*PropSpec{}

// ---------------------------------------------------------------------------------------------
// sequential engine

type seqEngine struct {
	// script, when set, builds the whole operation list up front (a parameterised scenario skeleton)
	// instead of generating operations online
	script       func(rng *simrt.Rng, cfg *Cfg) []Op
	profile      Profile
	nontrivial   func(out *SeqOutcome) bool
	saveLoad     bool
	streamFaults bool // save/load with truncated or failing streams (relaxed oracle, separate engine)
	admission    bool
}

func (e *seqEngine) Run(a *agg, spec *PropSpec, seed uint64) {
	rng := simrt.NewRng(seed, 10)
	sc := &SeqCase{Cfg: GenCfg(&rng, &e.profile)}
	lo, hi := e.profile.MinOps, e.profile.MaxOps
	if hi == 0 {
		lo, hi = 20, 200
	}
	if a.opts.Tier == "thorough" && rng.Intn(2) == 0 {
		hi *= 2 // deeper programs in half of the thorough runs
	}
	nops := lo + rng.Intn(hi-lo+1)
	sc.Admission = e.admission
	if e.saveLoad {
		pl := &SaveLoadPlan{ChunkSeed: rng.Uint64(), MaxChunk: []int{0, 1, 3, 17, 400}[rng.Intn(5)], CleanUp: rng.Bool()}
		if sc.Cfg.Executor == "queued" {
			// a held executor: the save finds writes still in the write buffer and scheduled drains that
			// have not run (an explicit CleanUp before the save would hide exactly that)
			pl.HoldExec, pl.CleanUp = true, false
		}
		switch rng.Intn(5) {
		case 0:
			pl.Delta = 0
		case 1:
			pl.Delta = 1
		default:
			pl.Delta = genDuration(&rng, &e.profile)
		}
		if sc.Cfg.withExpiry() && rng.Intn(3) == 0 {
			pl.Delta = sc.Cfg.ExpD + int64(rng.Intn(3)) - 1 // land on a deadline
			if pl.Delta < 0 {
				pl.Delta = 0
			}
		}
		if sc.Cfg.bounded() && rng.Intn(2) == 0 {
			pl.TMax = uint64(1 + rng.Intn(int(sc.Cfg.Max)*2+2))
		}
		if (sc.Cfg.withExpiry() || sc.Cfg.withRefresh()) && rng.Intn(4) == 0 {
			// a slow stream: the clock moves with every Read of the load
			d := sc.Cfg.ExpD
			if d <= 0 {
				d = sc.Cfg.RefD
			}
			switch rng.Intn(3) {
			case 0:
				pl.ReadAdv = 1 + int64(rng.Intn(1000))
			default:
				pl.ReadAdv = d/int64(1+rng.Intn(60)) + 1
			}
		}
		if e.streamFaults {
			pl.Fault = []string{"truncate", "truncate", "readerr", "writeerr"}[rng.Intn(4)]
			pl.FaultAt = rng.Intn(1001) // per mille of the stream (reads) ...
			if pl.Fault == "writeerr" {
				pl.FaultAt = rng.Intn(600) // ... or bytes (writes)
			}
		}
		sc.SaveLoad = pl
	}
	rng2 := simrt.NewRng(seed, 11)
	gen := NewOpGen(&rng2, &sc.Cfg, &e.profile)
	if e.script != nil {
		sc.Ops = e.script(&rng2, &sc.Cfg)
		gen = nil
	}
	out := RunSeq(seed, sc, gen, nops, true)
	a.st.Runs++
	if a.det {
		a.detLines = append(a.detLines, fmt.Sprintf("%d %016x %d %016x %d", seed, out.LogHash, out.SimSteps, uint64(0), len(out.Viol)))
		return
	}
	a.st.OpsExecuted += out.Steps
	a.st.SimSteps += out.SimSteps
	a.st.SimTimeNs += float64(out.SimTime)
	mergeCounts(a.st.Probes, out.Probes)
	mergeCounts(a.st.Faults, out.Faults)
	a.st.Strategies["sequential"]++
	if e.nontrivial == nil || e.nontrivial(out) {
		h := hashJSON(sc)
		if _, dup := a.hashes[h]; !dup {
			a.hashes[h] = struct{}{}
			a.st.NonTrivial++
		}
	}
	if len(a.st.Samples) < 2 && out.Steps >= 5 {
		n := len(sc.Ops)
		if n > 12 {
			n = 12
		}
		var ops []string
		for _, o := range sc.Ops[:n] {
			ops = append(ops, o.String())
		}
		a.st.Samples = append(a.st.Samples, map[string]any{"engine": "seq", "seed": seed, "config": sc.Cfg, "first_ops": ops, "total_ops": len(sc.Ops)})
	}
	if out.Infra != "" {
		if len(a.st.InfraErrors) < 5 {
			a.st.InfraErrors = append(a.st.InfraErrors, fmt.Sprintf("seed %d: %s", seed, out.Infra))
		}
		return
	}
	rel, foreign := relevant(out.Viol, spec.ID)
	mergeCounts(a.st.Foreign, foreign)
	if len(rel) == 0 {
		return
	}
	v := rel[0]
	if kd := a.knownMatch(v); kd != "" {
		if len(a.st.Known) < 20 {
			a.st.Known = append(a.st.Known, ViolationRec{Violation: v, Seed: seed, Known: kd})
		}
		a.st.Probes["known-finding-hits"]++
		return
	}
	a.nviol++
	msc := minimizeSeq(seed, sc, spec.ID, v.Rule, a.opts.MinimizeS)
	mout := RunSeq(seed, msc, nil, 0, true)
	mrel, _ := relevant(mout.Viol, spec.ID)
	mv := v
	for _, x := range mrel {
		if x.Rule == v.Rule {
			mv = x
			break
		}
	}
	rp := &Replay{V: 1, Property: spec.ID, Engine: "seq", Seed: seed, Seq: msc,
		Expect: ReplayExpect{Rule: mv.Rule, Key: mv.Key, Step: mv.Step, LogHash: fmt.Sprintf("%016x", mout.LogHash), Detail: mv.Detail}}
	path := a.writeReplay(rp)
	a.st.Violations = append(a.st.Violations, ViolationRec{Violation: mv, Seed: seed, Replay: path})
}

func hasRule(vs []Violation, prop, rule string) bool {
	for _, v := range vs {
		if v.Rule == rule && v.has(prop) {
			return true
		}
	}
	return false
}

// minimizeSeq shrinks a failing sequential case (ddmin over operations, then configuration
// simplifications), keeping only candidates that still violate the same rule of the same property.
func minimizeSeq(seed uint64, sc *SeqCase, prop, rule string, budgetS float64) *SeqCase {
	if budgetS <= 0 {
		budgetS = 15
	}
	deadline := time.Now().Add(time.Duration(budgetS * float64(time.Second)))
	fails := func(c *SeqCase) bool {
		out := RunSeq(seed, c, nil, 0, true)
		return hasRule(out.Viol, prop, rule)
	}
	cur := &SeqCase{Cfg: sc.Cfg, Ops: append([]Op(nil), sc.Ops...), SaveLoad: sc.SaveLoad, Admission: sc.Admission}
	if !fails(cur) {
		return sc // not deterministic?! keep the original
	}
	// ddmin over ops
	n := 2
	for len(cur.Ops) >= 2 && time.Now().Before(deadline) {
		chunk := (len(cur.Ops) + n - 1) / n
		reduced := false
		for i := 0; i < len(cur.Ops) && time.Now().Before(deadline); i += chunk {
			j := i + chunk
			if j > len(cur.Ops) {
				j = len(cur.Ops)
			}
			cand := &SeqCase{Cfg: cur.Cfg, SaveLoad: cur.SaveLoad, Admission: cur.Admission}
			cand.Ops = append(cand.Ops, cur.Ops[:i]...)
			cand.Ops = append(cand.Ops, cur.Ops[j:]...)
			if (len(cand.Ops) > 0 || cand.SaveLoad != nil) && fails(cand) {
				cur = cand
				if n > 2 {
					n--
				}
				reduced = true
				break
			}
		}
		if !reduced {
			if chunk == 1 {
				break
			}
			n *= 2
			if n > len(cur.Ops) {
				n = len(cur.Ops)
			}
		}
	}
	// configuration simplifications
	try := func(mut func(c *Cfg)) {
		if !time.Now().Before(deadline) {
			return
		}
		cand := &SeqCase{Cfg: cur.Cfg, Ops: cur.Ops, SaveLoad: cur.SaveLoad, Admission: cur.Admission}
		mut(&cand.Cfg)
		if fails(cand) {
			cur = cand
		}
	}
	try(func(c *Cfg) { c.Stats = false })
	try(func(c *Cfg) { c.InitCap = 0 })
	try(func(c *Cfg) { c.HashMode = 0 })
	try(func(c *Cfg) { c.PoolMode = 1 })
	try(func(c *Cfg) { c.WriteBufMax = 128; c.StripedMax = 4 })
	try(func(c *Cfg) { c.Parallelism = 1 })
	try(func(c *Cfg) { c.Refresh = "none" })
	try(func(c *Cfg) { c.Expiry = "none" })
	try(func(c *Cfg) { c.Bound = "none" })
	try(func(c *Cfg) { c.ClockOrigin = 1000 })
	return cur
}
