package zzverif

import (
	"math"

	"verifsim/simrt"
)

// Profile biases configuration and operation generation towards what a property needs.
type Profile struct {
	Prop         string
	ForceBound   string // "", none, size, weight
	ForceExp     bool
	NoExp        bool
	ForceRef     bool
	NoRef        bool
	Executor     []string
	Stats        bool
	ExtremeClk   bool // C12: clock origins / durations near MaxInt64
	BigTTL       bool // C13: TTLs from ns to years
	OpW          map[string]int
	MinOps       int
	MaxOps       int
	Keys         [2]int
	NoPanic      bool
	BoundOnly    bool   // size- or weight-bounded configurations only, maximum well below the key space
	ReadBursts   bool   // generate runs of 17-40 reads (overflowing a 16-slot read buffer stripe)
	WheelBias    bool   // custom expiry: short creation TTLs (wheel level 0/1), reads extending to a coarser level
	SmallReadBuf bool   // one read-buffer stripe (16 slots): read events get dropped
	AlsoProp     string // every violation of a run of this profile also belongs to this property (C17: results with a saturated read buffer)
	NoCustomExp  bool   // only the built-in expiry policies (reads never shorten a deadline)
	AccessBias   bool   // prefer expire-after-access among the built-in policies
	TinyWriteBuf bool   // C16: write buffers of at most 4-8 events (offers are refused all the time)
	MidBound     bool   // maximum between a third and the whole of the key space (eviction passes with several victims and arrivals)
}

func logUniform(r *simrt.Rng, lo, hi int64) int64 {
	if hi <= lo {
		return lo
	}
	ll, lh := math.Log(float64(lo)), math.Log(float64(hi))
	x := int64(math.Exp(ll + r.Float64()*(lh-ll)))
	if x < lo {
		x = lo
	}
	if x > hi {
		x = hi
	}
	return x
}

var wheelSpans = []int64{1 << 30, 1 << 36, 1 << 42, 1 << 47, 1 << 49}

func genDuration(r *simrt.Rng, p *Profile) int64 {
	if p.BigTTL && r.Intn(2) == 0 {
		// a TTL inside one timer-wheel level (level 0: 1..64 ticks of 2^30 ns, level 1: up to 2^42, ...)
		lv := r.Intn(5)
		lo := int64(1) << 30
		if lv > 0 {
			lo = wheelSpans[lv]
		}
		hi := int64(1) << 51
		if lv < 4 {
			hi = wheelSpans[lv+1]
		}
		return logUniform(r, lo, hi)
	}
	switch r.Intn(10) {
	case 0:
		s := wheelSpans[r.Intn(len(wheelSpans))]
		return s + int64(r.Intn(3)) - 1
	case 1:
		if p.ExtremeClk {
			return math.MaxInt64 - int64(r.Intn(3))
		}
		return logUniform(r, 1, 1_000)
	case 2:
		if p.ExtremeClk {
			return math.MaxInt64 - logUniform(r, 1, 1<<40)
		}
		return logUniform(r, 1_000_000_000, 400*24*3600*1_000_000_000)
	case 3, 4:
		return logUniform(r, 1, 100)
	default:
		if p.BigTTL {
			return logUniform(r, 1, 3*365*24*3600*1_000_000_000)
		}
		return logUniform(r, 1, 10_000_000_000)
	}
}

// GenCfg draws a configuration.
func GenCfg(r *simrt.Rng, p *Profile) Cfg {
	c := Cfg{}
	lo, hi := 2, 12
	if p.Keys[1] > 0 {
		lo, hi = p.Keys[0], p.Keys[1]
	}
	c.Keys = lo + r.Intn(hi-lo+1)
	b := p.ForceBound
	if b == "" {
		b = []string{"none", "size", "size", "weight", "weight"}[r.Intn(5)]
		if p.BoundOnly && b == "none" {
			b = []string{"size", "weight"}[r.Intn(2)]
		}
	}
	c.Bound = b
	switch b {
	case "size":
		c.Max = uint64(1 + r.Intn(c.Keys+2))
		if r.Intn(8) == 0 {
			c.Max = uint64(20 + r.Intn(200))
		}
		if p.MidBound {
			c.Max = uint64(c.Keys/3 + 1 + r.Intn(c.Keys))
		}
	case "weight":
		c.Max = uint64(1 + r.Intn(3*c.Keys))
		if p.MidBound {
			c.Max = uint64(c.Keys + r.Intn(2*c.Keys+1))
		}
		n := 1 + r.Intn(4)
		for i := 0; i < n; i++ {
			switch r.Intn(6) {
			case 0:
				c.Weights = append(c.Weights, 0)
			case 1:
				c.Weights = append(c.Weights, uint32(c.Max)+1+uint32(r.Intn(3)))
			case 2:
				c.Weights = append(c.Weights, uint32(c.Max))
			default:
				c.Weights = append(c.Weights, uint32(1+r.Intn(5)))
			}
		}
		if !p.MidBound && r.Intn(12) == 0 {
			// a maximum beyond 32 bits (the weigher's range) with a small remainder mod 2^32, and
			// weights near the top of the weigher's range: 64-bit totals, nothing may be truncated
			c.Max += uint64(1+r.Intn(3)) << 32
			for i := 0; i < 1+r.Intn(2); i++ {
				c.Weights = append(c.Weights, []uint32{1 << 31, 1<<32 - 1, 1 << 30, 1<<31 + 7}[r.Intn(4)])
			}
		}
	}
	exp := "none"
	if !p.NoExp && (p.ForceExp || r.Intn(3) != 0) {
		exp = []string{"creating", "writing", "accessing", "custom", "custom"}[r.Intn(5)]
		if p.NoCustomExp && exp == "custom" {
			exp = []string{"creating", "writing", "accessing"}[r.Intn(3)]
			if p.AccessBias {
				exp = "accessing" // overall about half of the configurations: reads move deadlines
			}
		}
	}
	c.Expiry = exp
	if exp != "none" {
		c.ExpD = genDuration(r, p)
		if exp == "custom" && p.WheelBias && r.Intn(2) == 0 {
			lv := func(l int) int64 {
				lo := int64(1) << 30
				if l > 0 {
					lo = wheelSpans[l]
				}
				return logUniform(r, lo, wheelSpans[l+1])
			}
			c.ExpTbl[0] = []int64{lv(r.Intn(2))}
			c.ExpTbl[1] = []int64{0}
			c.ExpTbl[2] = []int64{lv(1 + r.Intn(3))}
			if r.Intn(3) == 0 {
				c.ExpTbl[2] = append(c.ExpTbl[2], 0)
			}
		} else if exp == "custom" {
			for t := 0; t < 3; t++ {
				n := 1 + r.Intn(3)
				for i := 0; i < n; i++ {
					d := genDuration(r, p)
					if t > 0 && r.Intn(3) == 0 {
						d = 0 // "keep the current deadline"
					}
					c.ExpTbl[t] = append(c.ExpTbl[t], d)
				}
			}
		}
	}
	ref := "none"
	if !p.NoRef && (p.ForceRef || r.Intn(3) == 0) {
		ref = []string{"creating", "writing", "custom"}[r.Intn(3)]
	}
	c.Refresh = ref
	if ref != "none" {
		c.RefD = genDuration(r, p)
		if ref == "custom" {
			for t := 0; t < 4; t++ {
				n := 1 + r.Intn(3)
				for i := 0; i < n; i++ {
					d := genDuration(r, p)
					if t > 0 && r.Intn(3) == 0 {
						d = 0
					}
					c.RefTbl[t] = append(c.RefTbl[t], d)
				}
			}
		}
	}
	c.InitCap = []int{0, 0, 1, 8, 100, 2000}[r.Intn(6)]
	ex := p.Executor
	if len(ex) == 0 {
		ex = []string{"sync"}
	}
	c.Executor = ex[r.Intn(len(ex))]
	c.Stats = p.Stats || r.Intn(2) == 0
	c.WriteBufMax = []uint32{4, 4, 8, 16, 128, 1024}[r.Intn(6)]
	if p.TinyWriteBuf && c.WriteBufMax > 8 {
		c.WriteBufMax = 4 // the rng draw above is kept so that the other streams do not shift
	}
	c.StripedMax = []int{1, 1, 2, 4, 16}[r.Intn(5)]
	if p.SmallReadBuf {
		c.StripedMax = 1
	}
	c.Parallelism = []int{1, 2, 3, 4, 5, 6, 8, 12, 16}[r.Intn(9)]
	if r.Intn(4) == 0 {
		c.HashMode = 1
	}
	c.PoolMode = r.Intn(3)
	switch r.Intn(6) {
	case 0:
		c.ClockOrigin = 1
	case 1:
		c.ClockOrigin = 1 << 62
	case 2:
		if p.ExtremeClk {
			c.ClockOrigin = math.MaxInt64 - logUniform(r, 2, 1<<50)
		} else {
			c.ClockOrigin = logUniform(r, 1, 1<<60)
		}
	default:
		c.ClockOrigin = logUniform(r, 1, 1<<50)
	}
	return c
}

var defaultOpW = map[string]int{
	"set": 14, "setifabsent": 5, "get": 10, "getentry": 3, "getquiet": 2,
	"compute": 6, "computeifabsent": 4, "computeifpresent": 4,
	"invalidate": 5, "invalidateall": 1, "setexpires": 3, "setrefreshable": 2,
	"load": 6, "bulkget": 4, "refresh": 2, "bulkrefresh": 2,
	"all": 1, "keys": 1, "values": 1, "hottest": 1, "coldest": 1,
	"setmax": 1, "getmax": 1, "wsize": 1, "esize": 2, "cleanup": 4, "stats": 1, "advance": 12, "runexec": 0,
}

var opKinds = []string{
	"set", "setifabsent", "get", "getentry", "getquiet", "compute", "computeifabsent", "computeifpresent",
	"invalidate", "invalidateall", "setexpires", "setrefreshable", "load", "bulkget", "refresh", "bulkrefresh",
	"all", "keys", "values", "hottest", "coldest", "setmax", "getmax", "wsize", "esize", "cleanup", "stats", "advance", "runexec",
}

// OpGen generates operations online, looking at the model to steer keys into interesting states.
type OpGen struct {
	queued []Op
	R      *simrt.Rng
	Cfg    *Cfg
	P      *Profile
	nextID int
	ws     []int
	// set around genPlan: the model (sequential engines only) and whether this operation kind may
	// get a loader that takes simulated time
	curModel *Model
	advOK    bool
}

func NewOpGen(r *simrt.Rng, cfg *Cfg, p *Profile) *OpGen {
	g := &OpGen{R: r, Cfg: cfg, P: p, nextID: 32}
	for _, k := range opKinds {
		w, ok := p.OpW[k]
		if !ok {
			w = defaultOpW[k]
		}
		if !cfg.withExpiry() && k == "setexpires" {
			w = (w + 3) / 4
		}
		if !cfg.withRefresh() && (k == "setrefreshable" || k == "refresh" || k == "bulkrefresh") {
			w = (w + 3) / 4
		}
		if !cfg.bounded() && (k == "setmax" || k == "hottest" || k == "coldest") {
			w = (w + 3) / 4
		}
		g.ws = append(g.ws, w)
	}
	return g
}

// newBase returns a fresh base id (multiple of 32).
func (g *OpGen) newBase() int {
	g.nextID += 32
	return g.nextID
}

// newVal returns a fresh unique value whose weight class is drawn at random.
func (g *OpGen) newVal() int {
	W := g.Cfg.W()
	return g.newBase()*W + g.R.Intn(W)
}

func (g *OpGen) genPlan(bulk bool, keys []int, allowPanic bool) *LoadPlan {
	r := g.R
	p := &LoadPlan{Kind: "val"}
	switch r.Intn(10) {
	case 0:
		p.Kind = "err"
	case 1:
		p.Kind, p.Cancelled = "err", true // the caller's context is already cancelled
	case 2, 3:
		p.Kind = "notfound"
	case 4:
		if allowPanic && !g.P.NoPanic {
			p.Kind = "panic"
		}
	}
	if g.curModel != nil && g.advOK && (g.Cfg.withExpiry() || g.Cfg.withRefresh()) && r.Intn(4) == 0 {
		p.Adv = g.genAdvance(g.curModel) // the load takes (simulated) time
	}
	if bulk && p.Kind == "err" && r.Intn(2) == 0 {
		p.ErrMap = true
	}
	if bulk && (p.Kind == "val" || p.ErrMap) {
		for _, k := range keys {
			if r.Intn(4) == 0 {
				p.Omit = append(p.Omit, k)
			}
		}
		if r.Intn(10) == 0 {
			p.Omit = append([]int(nil), keys...) // empty map
		}
		n := r.Intn(3)
		for i := 0; i < n; i++ {
			p.Extra = append(p.Extra, r.Intn(g.Cfg.Keys+2))
		}
	}
	return p
}

func (g *OpGen) pickKey(m *Model) int {
	r := g.R
	n := g.Cfg.Keys
	if m != nil && r.Intn(3) == 0 {
		// prefer an expired-but-unswept key when there is one
		var ex []int
		for k := 0; k < n; k++ {
			if m.expiredUnswept(k) != nil {
				ex = append(ex, k)
			}
		}
		if len(ex) > 0 {
			return ex[r.Intn(len(ex))]
		}
	}
	return r.Intn(n)
}

// Next draws the next operation. m may be nil (concurrent programs are generated offline).
func (g *OpGen) Next(m *Model) Op {
	r := g.R
	cfg := g.Cfg
	if len(g.queued) > 0 {
		op := g.queued[0]
		g.queued = g.queued[1:]
		return op
	}
	kind := opKinds[r.Weighted(g.ws)]
	op := Op{Kind: kind}
	if g.P.ReadBursts && kind == "get" && r.Intn(8) == 0 {
		n := 17 + r.Intn(24)
		k := r.Intn(cfg.Keys)
		for i := 0; i < n; i++ {
			if r.Intn(4) == 0 {
				k = r.Intn(cfg.Keys)
			}
			g.queued = append(g.queued, Op{Kind: "get", K: k})
		}
		// ... followed by a read of (probably) another key whose event is then dropped
		g.queued = append(g.queued, Op{Kind: "get", K: r.Intn(cfg.Keys)})
	}
	switch kind {
	case "set", "setifabsent":
		op.K, op.V = g.pickKey(m), g.newVal()
	case "get", "getentry", "getquiet", "invalidate":
		op.K = g.pickKey(m)
	case "compute", "computeifpresent":
		op.K, op.V = g.pickKey(m), g.newVal()
		op.Comp = []string{"write", "write", "inval", "cancel", "panic"}[r.Intn(5)]
		if g.P.NoPanic && op.Comp == "panic" {
			op.Comp = "cancel"
		}
	case "computeifabsent":
		op.K, op.V = g.pickKey(m), g.newVal()
		op.Comp = []string{"write", "write", "write", "cancel", "panic"}[r.Intn(5)]
		if g.P.NoPanic && op.Comp == "panic" {
			op.Comp = "cancel"
		}
	case "setexpires", "setrefreshable":
		op.K, op.D = g.pickKey(m), genDuration(r, g.P)
		if r.Intn(8) == 0 {
			op.D = int64(r.Intn(3)) - 1 // 0 / negative: documented no-ops
		}
	case "load":
		op.K, op.V = g.pickKey(m), g.newBase()
		g.curModel, g.advOK = m, true
		op.Load = g.genPlan(false, nil, true)
	case "refresh":
		op.K, op.V = g.pickKey(m), g.newBase()
		g.curModel, g.advOK = m, true
		op.Load = g.genPlan(false, nil, false)
	case "bulkget", "bulkrefresh":
		n := 1 + r.Intn(5)
		for i := 0; i < n; i++ {
			k := g.pickKey(m)
			if r.Intn(12) == 0 {
				k = cfg.Keys + r.Intn(2) // a key outside the hot range
			}
			op.Ks = append(op.Ks, k)
		}
		if r.Intn(4) == 0 && len(op.Ks) > 0 {
			op.Ks = append(op.Ks, op.Ks[r.Intn(len(op.Ks))]) // duplicate
		}
		if kind == "bulkrefresh" && r.Intn(12) == 0 {
			op.Ks = nil
		}
		op.V = g.newBase()
		g.curModel, g.advOK = m, kind == "bulkget" // BulkRefresh may call the loader twice in an unspecified order
		op.Load = g.genPlan(true, op.Ks, kind == "bulkget")
	case "setmax":
		switch r.Intn(5) {
		case 0:
			op.D = 0
		case 1:
			op.D = int64(cfg.Max)
		default:
			op.D = int64(r.Intn(int(cfg.Max)*2 + 3))
		}
	case "advance":
		op.D = g.genAdvance(m)
	case "all", "keys", "values", "hottest", "coldest":
		if r.Intn(3) == 0 {
			op.D = int64(1 + r.Intn(3)) // the caller stops iterating early
		}
		if m != nil && cfg.withExpiry() && r.Intn(4) == 0 {
			op.D2 = g.genAdvance(m) // the loop body moves the clock after the first element
		}
		if m != nil && !cfg.bounded() && !cfg.withRefresh() && (kind == "all" || kind == "keys" || kind == "values") && r.Intn(4) == 0 {
			// the loop body rewrites (or inserts) a key after the first element; with expiry it then
			// usually moves the clock to the rewritten entry's new deadline (+-1) or just short of
			// the other entries' deadlines
			op.K, op.V = g.pickKey(m), g.newVal()
			if cfg.withExpiry() && r.Intn(3) != 0 {
				d := cfg.expUpdate(op.K, op.V)
				if m.visible(op.K) == nil || d <= 0 {
					d = cfg.expCreate(op.K, op.V)
				}
				if d > 0 {
					op.D2 = d + int64(r.Intn(3)) - 1
					if op.D2 <= 0 {
						op.D2 = 1
					}
				}
			}
		}
	case "runexec":
		op.D = int64(r.Intn(4)) - 1 // -1: run everything that is queued
		if op.D == 0 {
			op.D = 1
		}
	}
	return op
}

// genAdvance: clock steps from 1 ns to centuries, often aimed at a deadline of a live entry (±1).
func (g *OpGen) genAdvance(m *Model) int64 {
	r := g.R
	if m != nil && r.Intn(2) == 0 {
		var cands []int64
		for _, k := range sortedKeys(m.m) {
			e := m.m[k]
			if !e.ExpNever && e.Exp > m.now {
				cands = append(cands, e.Exp-m.now)
			}
			if !e.RefNever && e.Ref > m.now {
				cands = append(cands, e.Ref-m.now)
			}
		}
		if len(cands) > 0 {
			d := cands[r.Intn(len(cands))] + int64(r.Intn(3)) - 1
			if r.Intn(4) == 0 {
				d += tickSlack + int64(r.Intn(3))
			}
			if d > 0 {
				return d
			}
		}
	}
	if g.P.BigTTL && r.Intn(3) == 0 {
		return int64(1+r.Intn(70)) << 30 // a few wheel ticks: less than one revolution of level 0
	}
	switch r.Intn(8) {
	case 0:
		return 1
	case 1:
		return tickSlack + int64(r.Intn(1000))
	case 2:
		return logUniform(r, 1, 100*365*24*3600*1_000_000_000)
	}
	return genDuration(r, g.P)
}
