package zzverif

import (
	"fmt"
	"math"
	"sort"
	"time"

	"github.com/anishathalye/porcupine"
	otter "github.com/maypok86/otter/v2"
)

func (cr *concRun) analyse(out *ConcOutcome) {
	cfg := &cr.cc.Cfg
	if cfg.bounded() {
		cr.probe["bounded"]++
	}
	if cfg.bounded() || cfg.withExpiry() {
		cr.probe["maintenance-configured"]++
	}
	for _, ev := range cr.r.Events {
		if ev.Atomic {
			cr.probe["atomic-events"]++
			cr.probe["atomic-events:"+ev.Cause.String()]++
		}
	}
	if cr.auditNoCleanup != nil {
		cr.probe[fmt.Sprintf("drain-status-at-quiescence:%d", cr.auditNoCleanup.DrainStatus)]++
	}
	if g, sh, nb := otter.VerifTableStats(cr.r.C); g+sh > 0 {
		cr.probe["cache-table-growths"] += g
		cr.probe["cache-table-shrinks"] += sh
		if nb >= 256 {
			cr.probe["cache-table-grew-to-256-buckets-or-more"]++
		}
	}
	own := map[[2]int]bool{}
	for _, l := range cr.r.Loads {
		own[[2]int{l.Task, l.OpIdx}] = true
		cr.probe["loader-calls"]++
	}
	for _, h := range cr.hist {
		if h.Done && h.Task >= 0 && h.Op.Kind == "load" && !own[[2]int{h.Task, h.Idx}] {
			for _, l := range cr.r.Loads {
				if l.Enter < h.Ret && (l.Exit == 0 || l.Exit > h.Call) {
					for _, k := range l.Keys {
						if k == h.Op.K {
							cr.probe["load-waiters"]++
						}
					}
				}
			}
		}
	}
	cr.checkLive()
	cr.checkAudit()
	cr.checkBoundAndViews()
	cr.checkEvents()
	cr.checkLoads()
	cr.checkJoinedFinishedLoad()
	cr.checkGetResultProduced()
	cr.checkStaleLoad()
	cr.checkLoadRemovedNewerWrite()
	cr.checkCompute()
	cr.checkStats()
	cr.checkSweep()
	cr.checkRefreshTrigger()
	cr.checkFreshNotReloaded()
	cr.checkFinalDeadlines()
	cr.checkConcIter()
	cr.checkRejectedLoads()
	cr.checkBulkResults()
	cr.checkProducerOrder()
	cr.countOverlaps(out)
	if cr.opts.Lin {
		cr.checkLin(out)
	}
	if cr.opts.Rounds || cr.opts.AsyncClock {
		cr.checkLinExp(out)
	}
	if Trace {
		cr.dumpTimeline()
	}
}

// ---------------------------------------------------------------------------------------------
// liveness at quiescence (C08 / C14)

func (cr *concRun) checkLive() {
	for _, s := range cr.liveAtEnd {
		kind := s[indexOf(s, ":")+1:]
		switch kind {
		case "select", "exec-queue":
			// periodic clean-up goroutine waiting for a tick; executor waiting for work
		default:
			cr.fail(P("C08", "C14"), "live.stuck-task", -1, "after the fair drain phase task %s is still blocked", s)
		}
	}
}

// ---------------------------------------------------------------------------------------------
// structural audits (C05, C14)

func (cr *concRun) checkAudit() {
	cfg := &cr.cc.Cfg
	if a := cr.auditNoCleanup; a != nil && cfg.Executor == "default" {
		// C14: with the default executor nothing may be left to do once everything has returned
		if a.DrainStatus != 0 {
			cr.fail(P("C14"), "strand.drain-status", -1, "at quiescence (no further calls) drainStatus=%d, write buffer holds %d events", a.DrainStatus, a.WriteBufferSize)
		}
		if a.WriteBufferSize != 0 {
			// C16 as well: an event the write buffer accepted has not been handed to the consumer
			cr.fail(P("C14", "C16"), "strand.write-buffer", -1, "at quiescence (no further calls) the write buffer still holds %d events (drainStatus=%d)", a.WriteBufferSize, a.DrainStatus)
		}
		if cfg.bounded() && a.DrainStatus == 0 && a.WriteBufferSize == 0 {
			var tw uint64
			for _, e := range cr.rawNoCleanup {
				tw += uint64(e.Weight)
			}
			if tw > a.PolicyMaximum {
				cr.fail(P("C14", "C04"), "strand.bound", -1, "at quiescence (no further calls) the table holds weight %d > maximum %d", tw, a.PolicyMaximum)
			}
		}
		at, as := 0, 0
		for _, e := range cr.r.Events[:cr.eventsAtNoCleanup] {
			if e.Atomic {
				at++
			} else {
				as++
			}
		}
		if at != as && cr.opts.NoCleanup {
			cr.fail(P("C14", "C06"), "strand.notifications", -1, "at quiescence (no further calls) %d atomic deletion events but %d OnDeletion notifications", at, as)
		}
		if a.DrainStatus == 0 && a.WriteBufferSize == 0 {
			for _, p := range a.Problems {
				cr.fail(auditProps(p, "C05", "C14"), ruleOf(p), -1, "quiescence without CleanUp: %s", p)
			}
		}
	}
	if a := cr.auditFinal; a != nil {
		for _, p := range a.Problems {
			cr.fail(auditProps(p, "C05"), ruleOf(p), -1, "after CleanUp: %s", p)
		}
		if a.InFlight != 0 {
			cr.fail(P("C08"), "load.inflight-left", -1, "%d in-flight call records left at quiescence", a.InFlight)
		}
		// C17: "delivers every successfully recorded entry once the cache is quiescent and maintenance
		// runs" - the final views (Hottest / Coldest) ran maintenance under the eviction lock after the
		// last read, so nothing may be left in the read buffer
		if a.ReadBufferLen != 0 && cr.cc.Cfg.bounded() {
			cr.fail(P("C17"), "lossy.read-buffer-not-drained", -1, "after CleanUp and the final ordered traversals the read buffer still holds %d recorded reads", a.ReadBufferLen)
		}
	}
	if cr.freshLoadTried && !cr.freshLoadOK {
		cr.fail(P("C08"), "load.no-fresh-load", -1, "a Get of an absent key after quiescence did not invoke the loader")
	}
}

// auditProps: a table node the policies do not know, or a node that is no longer alive and still
// linked, is a write event that never reached the policies - which is also C16's last sentence
// ("consequently no cache write is forgotten by the eviction and expiration policies").
func auditProps(problem string, base ...string) []string {
	switch ruleOf(problem) {
	case "audit.table-node-unlinked", "audit.deque-node-not-alive", "audit.table-node-not-in-wheel":
		return P(append(base, "C16")...)
	}
	return P(base...)
}

func ruleOf(problem string) string {
	if i := indexOf(problem, ":"); i > 0 {
		return problem[:i]
	}
	return "audit"
}

// ---------------------------------------------------------------------------------------------
// bound and derived views after CleanUp (C04, C05)

func (cr *concRun) checkBoundAndViews() {
	if cr.opts.NoCleanup || cr.auditFinal == nil {
		return
	}
	cfg := &cr.cc.Cfg
	var sum uint64
	seen := map[int]int{}
	for _, e := range cr.finalAll {
		sum += uint64(e.W)
		seen[e.K]++
		if seen[e.K] > 1 {
			cr.fail(P("C15", "C05"), "iter.duplicate", e.K, "All yielded key %d twice at quiescence", e.K)
		}
	}
	if cfg.bounded() {
		// "the configured maximum, including after the maximum is lowered at run time": what the
		// callers configured, not what the cache reports. When the SetMaximum calls of the run are
		// totally ordered in real time the last one decides; otherwise the cache's own report is used.
		if want, ok := cr.configuredMaximum(); ok {
			cr.probe["bound-judged-against-the-configured-maximum"]++
			if cr.finalMax != want {
				cr.fail(P("C04"), "bound.maximum-not-applied", -1, "GetMaximum() reports %d at quiescence, the last SetMaximum of the run asked for %d", cr.finalMax, want)
			}
			cr.finalMax = want
		}
		if sum > cr.finalMax {
			cr.fail(P("C04"), "bound.exceeded", -1, "after quiescence and CleanUp the entries present weigh %d > maximum %d (%d entries; policy weightedSize %d)", sum, cr.finalMax, len(cr.finalAll), cr.auditFinal.PolicyWeighted)
		}
		for _, e := range cr.finalAll {
			if uint64(e.W) > cr.finalMax {
				cr.fail(P("C04"), "bound.oversized-retained", e.K, "entry key=%d weight %d heavier than the maximum %d is retained", e.K, e.W, cr.finalMax)
			}
		}
	}
	for _, ev := range cr.r.Events {
		if ev.Atomic && ev.Cause == otter.CauseOverflow {
			if !cfg.bounded() {
				cr.fail(P("C07", "C04"), "event.overflow-unbounded", ev.K, "Overflow event in an unbounded cache")
			} else if cfg.weightOf(ev.V) == 0 {
				cr.fail(P("C04"), "bound.zero-weight-evicted", ev.K, "zero-weight entry key=%d value=%d was evicted for size", ev.K, ev.V)
			}
		}
	}
	// C05: derived views
	if cfg.Bound == "weight" {
		// expired-but-unswept entries (deadline within the last tick) are still tracked by the policy
		// but not iterated: with expiry the physically present weight is the upper bound
		hi := sum
		if cfg.withExpiry() {
			hi = cr.auditFinal.TableWeight
		}
		if cr.finalWSize < sum || cr.finalWSize > hi {
			cr.fail(P("C05"), "views.weighted-size", -1, "WeightedSize()=%d but the entries present weigh %d (physically present %d)", cr.finalWSize, sum, hi)
		}
	} else if cr.finalWSize != 0 {
		cr.fail(P("C05"), "views.weighted-size", -1, "WeightedSize()=%d for an unweighted cache", cr.finalWSize)
	}
	if !cfg.withExpiry() && cr.finalESize != len(cr.finalAll) {
		cr.fail(P("C05", "C15"), "views.estimated-size", -1, "EstimatedSize()=%d but iteration yields %d entries", cr.finalESize, len(cr.finalAll))
	}
	if cfg.bounded() {
		all := sortedEntryKeys(cr.finalAll)
		hot := sortedEntryKeys(cr.finalHot)
		cold := sortedEntryKeys(cr.finalCold)
		if !sameInts(all, hot) || !sameInts(all, cold) {
			cr.fail(P("C05"), "views.order-sets", -1, "All yields keys %v, Hottest %v, Coldest %v", all, hot, cold)
		}
	}
}

// ---------------------------------------------------------------------------------------------
// deletion events (C06)

type installInfo struct {
	k        int
	explicit bool // certainly installed
	task     int
	opIdx    int
}

func (cr *concRun) installs() map[int]*installInfo {
	ins := map[int]*installInfo{}
	for _, h := range cr.hist {
		if !h.Done {
			continue
		}
		op := h.Op
		switch op.Kind {
		case "set":
			ins[op.V] = &installInfo{k: op.K, explicit: !h.Res.Panic, task: h.Task, opIdx: h.Idx}
		case "setifabsent":
			if h.Res.Ok && h.Res.V == op.V {
				ins[op.V] = &installInfo{k: op.K, explicit: true, task: h.Task, opIdx: h.Idx}
			}
		case "compute", "computeifpresent", "computeifabsent":
			if op.Comp == "write" && h.Res.CompCalls >= 1 && !h.Res.Panic {
				ins[op.V] = &installInfo{k: op.K, explicit: true, task: h.Task, opIdx: h.Idx}
			}
		}
	}
	for _, l := range cr.r.Loads {
		for k, v := range l.Ret {
			if l.Outcome == "val" {
				if _, dup := ins[v]; !dup {
					ins[v] = &installInfo{k: k, explicit: false, task: l.Task, opIdx: l.OpIdx}
				}
			}
		}
	}
	return ins
}

func (cr *concRun) checkEvents() {
	if cr.auditFinal == nil && !cr.opts.NoCleanup {
		return
	}
	cfg := &cr.cc.Cfg
	ins := cr.installs()
	present := map[int]int{} // value -> key
	if cr.opts.NoCleanup {
		for _, e := range cr.rawNoCleanup {
			present[e.Value] = e.Key
		}
	} else {
		for _, e := range cr.finalAll {
			present[e.V] = e.K
		}
		if cfg.withExpiry() {
			// expired-but-unswept entries are physically present but invisible: count raw presence too
			for _, e := range otterRaw(cr) {
				present[e.Value] = e.Key
			}
		}
	}
	type ek struct {
		k, v  int
		cause otter.DeletionCause
	}
	atomicN := map[ek]int{}
	asyncN := map[ek]int{}
	reported := map[int]int{}
	removedBefore := map[int]bool{}
	histBy := map[[2]int]*HistOp{}
	for _, h := range cr.hist {
		histBy[[2]int{h.Task, h.Idx}] = h
	}
	for _, ev := range cr.r.Events {
		kk := ek{ev.K, ev.V, ev.Cause}
		if !ev.Atomic {
			asyncN[kk]++
			continue
		}
		atomicN[kk]++
		reported[ev.V]++
		info := ins[ev.V]
		if info == nil {
			cr.fail(P("C06"), "event.unknown-value", ev.K, "atomic deletion event key=%d value=%d cause=%s reports a value nobody installed", ev.K, ev.V, ev.Cause)
			continue
		}
		if info.k != ev.K {
			cr.fail(P("C06"), "event.wrong-key", ev.K, "value %d was installed for key %d but reported for key %d", ev.V, info.k, ev.K)
		}
		if reported[ev.V] > 1 {
			cr.fail(P("C06"), "event.duplicate", ev.K, "value %d of key %d was reported %d times to OnAtomicDeletion", ev.V, ev.K, reported[ev.V])
		}
		// cause vs emitting context
		ctx := histBy[[2]int{ev.Task, ev.OpIdx}]
		switch ev.Cause {
		case otter.CauseReplacement:
			okCtx := false
			if ctx != nil {
				for _, k := range keysOf(ctx.Op) {
					if k == ev.K && isWriteOp(ctx.Op) {
						okCtx = true
					}
				}
				if ctx.Op.Load != nil { // volunteered keys
					for _, k := range ctx.Op.Load.Extra {
						if k == ev.K {
							okCtx = true
						}
					}
				}
			} else if ev.Task == -1 && (ev.OpKind == "" || ev.OpKind == "fresh-load") {
				okCtx = true // background reload installing over the old value
			}
			if cr.isBackgroundCtx(ev) {
				okCtx = true
			}
			if !okCtx {
				cr.fail(P("C06"), "event.cause-context", ev.K, "value %d of key %d reported as Replacement while the emitting context (%s) does not write that key", ev.V, ev.K, cr.ctxStr(ev))
			}
			// order: the value that replaces ev.V must not have been reported removed earlier
			if ctx != nil && (ctx.Op.Kind == "set" || ctx.Op.Kind == "setifabsent" || ctx.Op.Kind == "compute" || ctx.Op.Kind == "computeifpresent") && ctx.Op.K == ev.K {
				if removedBefore[ctx.Op.V] {
					cr.fail(P("C06"), "event.order", ev.K, "key %d: value %d (installed later) was reported removed before value %d which it replaced", ev.K, ctx.Op.V, ev.V)
				}
			}
		case otter.CauseInvalidation:
			okCtx := cr.isBackgroundCtx(ev)
			if ctx != nil {
				switch ctx.Op.Kind {
				case "invalidate", "invalidateall", "refresh", "bulkrefresh", "load", "bulkget":
					okCtx = true
				case "compute", "computeifpresent":
					okCtx = ctx.Op.Comp == "inval" && ctx.Op.K == ev.K
				}
			}
			if !okCtx {
				cr.fail(P("C06"), "event.cause-context", ev.K, "value %d of key %d reported as Invalidation while the emitting context (%s) does not invalidate", ev.V, ev.K, cr.ctxStr(ev))
			}
		case otter.CauseOverflow:
			if !cfg.bounded() {
				cr.fail(P("C06", "C07"), "event.overflow-unbounded", ev.K, "Overflow in a cache without a size bound")
			}
		case otter.CauseExpiration:
			if !cfg.withExpiry() {
				cr.fail(P("C06", "C07"), "event.expiration-without-expiry", ev.K, "Expiration in a cache without expiry")
			}
		}
		removedBefore[ev.V] = true
	}
	for _, v := range sortedKeys(ins) {
		info := ins[v]
		_, isPresent := present[v]
		n := reported[v]
		switch {
		case info.explicit && !isPresent && n == 0:
			cr.fail(P("C06"), "event.lost", info.k, "value %d written to key %d is no longer present but was never reported to OnAtomicDeletion (values written != present + reported)", v, info.k)
		case isPresent && n > 0:
			cr.fail(P("C06"), "event.reported-but-present", info.k, "value %d of key %d is still present but was reported removed", v, info.k)
		}
	}
	// OnDeletion mirrors OnAtomicDeletion once the executor has drained
	keys := map[ek]bool{}
	for k := range atomicN {
		keys[k] = true
	}
	for k := range asyncN {
		keys[k] = true
	}
	for k := range keys {
		if atomicN[k] != asyncN[k] {
			props := P("C06")
			if k.cause == otter.CauseExpiration && asyncN[k] < atomicN[k] {
				// C13: "... and its Expiration event has been delivered" - after the final CleanUp and the
				// drained executor an expired entry whose notification never arrives was not reported
				props = P("C06", "C13")
			}
			cr.fail(props, "event.ondeletion-mismatch", k.k, "key %d value %d cause %s: %d atomic events, %d OnDeletion notifications at quiescence", k.k, k.v, k.cause, atomicN[k], asyncN[k])
		}
	}
}

func otterRaw(cr *concRun) []otter.Entry[int, int] { return otter.VerifRawEntries(cr.r.C) }

func (cr *concRun) isBackgroundCtx(ev Event) bool { return ev.Task == -1 && ev.OpIdx == -1 }

func (cr *concRun) ctxStr(ev Event) string {
	return fmt.Sprintf("task %d op %d %s", ev.Task, ev.OpIdx, ev.OpKind)
}

// ---------------------------------------------------------------------------------------------
// loads (C08, C09)

type interval struct{ a, b uint64 }

func (cr *concRun) writersOf(k int) []interval {
	var out []interval
	for _, h := range cr.hist {
		if !h.Done || !isWriteOp(h.Op) {
			continue
		}
		touches := h.Op.Kind == "invalidateall"
		for _, kk := range keysOf(h.Op) {
			if kk == k {
				touches = true
			}
		}
		if h.Op.Load != nil {
			for _, kk := range h.Op.Load.Extra {
				if kk == k {
					touches = true
				}
			}
		}
		if touches && h.Op.Kind != "load" && h.Op.Kind != "bulkget" && h.Op.Kind != "refresh" && h.Op.Kind != "bulkrefresh" {
			out = append(out, interval{h.Call, h.Ret})
		}
	}
	for _, ev := range cr.r.Events {
		if ev.Atomic && ev.K == k {
			// the whole table computation that emitted the event: the in-flight call is cleared
			// somewhere between taking the bucket lock and invoking the handler
			b := ev.Begin
			if b > ev.Seq {
				b = ev.Seq
			}
			out = append(out, interval{b, ev.Seq})
		}
	}
	return out
}

// checkLoads: loader invocations for one key overlap only if the key was written, invalidated or
// evicted in between (flagged only if no such operation could lie in the window).
func (cr *concRun) checkLoads() {
	byKey := map[int][]*loadRec{}
	for _, l := range cr.r.Loads {
		for _, k := range l.Keys {
			byKey[k] = append(byKey[k], l)
		}
	}
	for _, k := range sortedKeys(byKey) {
		ls := byKey[k]
		if len(ls) < 2 {
			continue
		}
		var ws []interval
		haveW := false
		for i := 0; i < len(ls); i++ {
			for j := 0; j < len(ls); j++ {
				a, b := ls[i], ls[j]
				if a == b || !(a.Enter < b.Enter) {
					continue
				}
				aExit := a.Exit
				if aExit == 0 {
					aExit = ^uint64(0)
				}
				if b.Enter >= aExit {
					continue
				}
				cr.probe["loader-overlap-same-key"]++
				if !haveW {
					ws = cr.writersOf(k)
					haveW = true
				}
				// a load is in flight from the moment its call was registered, which is no earlier than
				// the invocation of the operation that started it; a write after either registration
				// clears that call, after which both calls may run their loaders
				start := a.Enter
				for _, h := range cr.hist {
					if (h.Op == a.Op || h.Op == b.Op) && h.Call < start {
						start = h.Call
					}
				}
				end := b.Enter
				excused := false
				for _, w := range ws {
					if w.a <= end && w.b >= start {
						excused = true
						break
					}
				}
				// a volunteered key of another bulk call being installed also clears nothing, but the
				// second loader call may belong to the same operation (reload + load phases)
				if a.Task == b.Task && a.OpIdx == b.OpIdx && a.Task >= 0 {
					excused = true
				}
				if !excused {
					cr.fail(P("C08"), "load.not-single-flight", k, "two loader invocations for key %d overlap (entered at %d and %d, first returned at %d) with no write, invalidation or eviction of the key in between", k, a.Enter, b.Enter, a.Exit)
				}
			}
		}
	}
}

// checkStaleLoad (C09): a value produced by a load whose loader was entered before an explicit
// write / invalidation W of the key was invoked must not be observed after W returned.
func (cr *concRun) checkStaleLoad() {
	type obs struct {
		call uint64
		v    int
		what string
	}
	observations := map[int][]obs{}
	for _, h := range cr.hist {
		if !h.Done || h.Res.Panic {
			continue
		}
		switch h.Op.Kind {
		case "get", "getentry", "getquiet":
			if h.Res.Ok {
				observations[h.Op.K] = append(observations[h.Op.K], obs{h.Call, h.Res.V, h.Op.Kind})
			}
		case "load":
			if h.Res.Err == "" {
				own := false
				for _, l := range cr.r.Loads {
					if l.Task == h.Task && l.OpIdx == h.Idx && !l.Reload {
						own = true
					}
				}
				if !own { // a hit or a waiter; waiters legitimately receive the loaded value
					continue
				}
			}
		}
	}
	final := map[int]int{}
	if cr.opts.NoCleanup {
		for _, e := range cr.rawNoCleanup {
			final[e.Key] = e.Value
		}
	} else {
		for _, e := range cr.finalAll {
			final[e.K] = e.V
		}
	}
	for _, l := range cr.r.Loads {
		if l.Outcome != "val" {
			continue
		}
		for _, k := range sortedKeys(l.Ret) { // requested keys and keys the bulk loader volunteered
			vL, ok := l.Ret[k]
			if !ok {
				continue
			}
			for _, h := range cr.hist {
				if !h.Done || h.Call <= l.Enter {
					continue
				}
				op := h.Op
				wrote := false
				if op.Kind == "invalidateall" {
					// C09 counts InvalidateAll for keys that are present while being reloaded (its effect
					// on loads of absent keys is undefined): it is a write of k iff the load is a reload
					// and this very call reported the removal of k
					if !l.Reload {
						continue
					}
					for _, ev := range cr.r.Events {
						if ev.Atomic && ev.K == k && ev.Cause == otter.CauseInvalidation && ev.Task == h.Task && ev.OpIdx == h.Idx && ev.Seq > l.Enter {
							wrote = true
						}
					}
					if wrote {
						cr.probe["invalidateall-inside-reload-window"]++
					}
				} else if op.K != k {
					continue
				}
				switch op.Kind {
				case "set":
					wrote = true
				case "setifabsent":
					wrote = h.Res.Ok
				case "invalidate":
					wrote = true
				case "compute", "computeifpresent", "computeifabsent":
					wrote = (op.Comp == "write" || op.Comp == "inval") && h.Res.CompCalls >= 1 && !h.Res.Panic
				}
				if !wrote {
					continue
				}
				// where the explicit write falls relative to the load: invoked while the loader body
				// runs / between the loader's return and the end of the installation / afterwards
				switch end := cr.loadInstallEnd(l); {
				case l.Exit == 0 || h.Call < l.Exit:
					cr.probe["write-while-loader-runs"]++
					if l.Exit == 0 || h.Ret < l.Exit {
						cr.probe["write-returned-before-loader-return"]++
					}
				case h.Call < end:
					cr.probe["write-between-loader-return-and-install"]++
				default:
					cr.probe["write-after-load-finished"]++
				}
				// A key the bulk loader volunteered (it was not among the keys the call asked for): C09 is
				// quantified "for requested keys of single and bulk loads", and no load "for it" was in
				// flight that the write could have cancelled - otter installs such a value even over a
				// newer write. That is outside the property as stated: counted as an observation, never
				// reported (DESIGN.md section 15, "C09 and volunteered keys").
				visRule, finRule, what := "load.stale-visible", "load.stale-final", "load"
				volunteered := true
				for _, lk := range l.Keys {
					if lk == k {
						volunteered = false
					}
				}
				if volunteered {
					cr.probe["write-during-bulk-load-that-volunteers-the-key"]++
					if fv, ok := final[k]; ok && fv == vL {
						cr.probe["observation:volunteered-value-installed-over-newer-write"]++
					}
					continue
				}
				for _, o := range observations[k] {
					if o.call > h.Ret && o.v == vL {
						cr.fail(P("C09"), visRule, k, "key %d: %s (loader entered at %d) produced %d; %s by task %d invoked at %d returned at %d; a later %s (invoked at %d) still returned the loaded value", k, what, l.Enter, vL, op, h.Task, h.Call, h.Ret, o.what, o.call)
					}
				}
				if fv, ok := final[k]; ok && fv == vL {
					cr.fail(P("C09"), finRule, k, "key %d: %s (loader entered at %d) produced %d; %s by task %d was invoked afterwards (at %d) and returned, yet the cache finally holds the loaded value", k, what, l.Enter, vL, op, h.Task, h.Call)
				}
			}
		}
	}
}

// loadInstallEnd: the step at which the installation of a loader call's result is over: the return
// of the client operation that ran the loader, or the end of the executor function / task for a
// background reload.
func (cr *concRun) loadInstallEnd(l *loadRec) uint64 {
	if l.InstallEnd != 0 {
		return l.InstallEnd
	}
	if l.Task >= 0 {
		for _, h := range cr.hist {
			if h.Task == l.Task && h.Idx == l.OpIdx && h.Done {
				return h.Ret
			}
		}
	}
	if l.TaskRef != nil && l.TaskRef.FinishSeq != 0 {
		return l.TaskRef.FinishSeq
	}
	return ^uint64(0) >> 2
}

// checkLoadRemovedNewerWrite (C09): the installation step of a load (its value, or the removal
// after a not-found result) must not replace or remove a value that an explicit write installed
// after the load had started; the explicit write cancels the load.
func (cr *concRun) checkLoadRemovedNewerWrite() {
	ins := cr.installs()
	histBy := map[[2]int]*HistOp{}
	for _, h := range cr.hist {
		histBy[[2]int{h.Task, h.Idx}] = h
	}
	for _, ev := range cr.r.Events {
		if !ev.Atomic || (ev.Cause != otter.CauseReplacement && ev.Cause != otter.CauseInvalidation) {
			continue
		}
		info := ins[ev.V]
		if info == nil || !info.explicit {
			continue
		}
		w := histBy[[2]int{info.task, info.opIdx}]
		if w == nil || w.Task < 0 {
			continue
		}
		for _, l := range cr.r.Loads {
			if l.TaskRef != ev.TaskRef || l.Exit == 0 || l.Exit > ev.Seq {
				continue
			}
			requested := false
			for _, k := range l.Keys {
				if k == ev.K {
					requested = true
				}
			}
			if !requested {
				continue
			}
			// the event must belong to this load's installation step
			if ev.Task >= 0 && !(l.Task == ev.Task && l.OpIdx == ev.OpIdx) {
				continue
			}
			end := l.InstallEnd
			if end == 0 && ev.Task < 0 && l.TaskRef != nil {
				end = l.TaskRef.FinishSeq
			}
			if end != 0 && ev.Seq > end {
				continue
			}
			// a later loader call of the same task (e.g. the load phase of a BulkGet after its
			// reload phase, which may volunteer this key) owns later events
			later := false
			for _, l2 := range cr.r.Loads {
				if l2 != l && l2.TaskRef == l.TaskRef && l2.Enter > l.Exit && l2.Enter < ev.Seq {
					later = true
				}
			}
			if later {
				continue
			}
			cr.probe["load-install-displaced-explicit-value"]++
			if w.Call > l.Enter {
				props := P("C09")
				if l.Reload {
					// C11: a reload replaces / removes the entry it reloaded, not a value written since
					props = P("C09", "C11")
				}
				cr.fail(props, "load.displaced-newer-write", ev.K, "key %d: value %d was written by %s (task %d, invoked at %d) after the loader had been entered (at %d), yet the installation step of that load removed it (cause %s, outcome %s)", ev.K, ev.V, w.Op, w.Task, w.Call, l.Enter, ev.Cause, l.Outcome)
			}
		}
	}
}

// ---------------------------------------------------------------------------------------------
// compute callbacks (C02)

func (cr *concRun) checkCompute() {
	for _, h := range cr.hist {
		if !h.Done {
			continue
		}
		switch h.Op.Kind {
		case "compute":
			if h.Res.CompCalls != 1 {
				cr.fail(P("C02", "C15"), "compute.calls", h.Op.K, "Compute callback ran %d times in one call (task %d op %d)", h.Res.CompCalls, h.Task, h.Idx)
			}
		case "computeifabsent", "computeifpresent":
			if h.Res.CompCalls > 1 {
				cr.fail(P("C02", "C15"), "compute.calls", h.Op.K, "%s callback ran %d times in one call", h.Op.Kind, h.Res.CompCalls)
			}
		}
	}
}

// ---------------------------------------------------------------------------------------------
// statistics (C20)

func (cr *concRun) checkStats() {
	cfg := &cr.cc.Cfg
	if !cfg.Stats || cr.auditFinal == nil {
		return
	}
	st := cr.finalStats.Stats
	var lookups, amb uint64
	for _, h := range cr.hist {
		if !h.Done {
			continue
		}
		switch h.Op.Kind {
		case "get", "getentry", "load", "computeifabsent", "computeifpresent":
			lookups++
		case "compute":
			if h.Res.Panic {
				amb++
			} else {
				lookups++
			}
		case "bulkget":
			seen := map[int]bool{}
			for _, k := range h.Op.Ks {
				if !seen[k] {
					seen[k] = true
					lookups++
				}
			}
		}
	}
	if st.Hits+st.Misses < lookups || st.Hits+st.Misses > lookups+amb {
		cr.fail(P("C20"), "stats.lookups", -1, "hits+misses=%d+%d but %d lookups were performed (+%d ambiguous)", st.Hits, st.Misses, lookups, amb)
	}
	nloads := uint64(0)
	for _, l := range cr.r.Loads {
		if l.OpIdx != -1 || l.Task != -1 || true {
			nloads++
		}
	}
	// the fresh-load probe runs after the snapshot
	if cr.freshLoadTried && cr.freshLoadOK {
		nloads--
	}
	if st.LoadSuccesses+st.LoadFailures != nloads {
		cr.fail(P("C20"), "stats.loads", -1, "load successes+failures=%d+%d but the loader was invoked %d times", st.LoadSuccesses, st.LoadFailures, nloads)
	}
	var over, exp uint64
	for _, ev := range cr.r.Events {
		if ev.Atomic && ev.Cause == otter.CauseOverflow {
			over++
		}
		if ev.Atomic && ev.Cause == otter.CauseExpiration {
			exp++
		}
	}
	if st.Evictions < over || st.Evictions > over+exp {
		cr.fail(P("C20"), "stats.evictions", -1, "Evictions=%d, Overflow events %d, Expiration events %d", st.Evictions, over, exp)
	}
}

// ---------------------------------------------------------------------------------------------
// overlap measure (non-triviality)

func (cr *concRun) countOverlaps(out *ConcOutcome) {
	byKey := map[int][]*HistOp{}
	for _, h := range cr.hist {
		if h.Task < 0 || !h.Done {
			continue
		}
		for _, k := range keysOf(h.Op) {
			byKey[k] = append(byKey[k], h)
		}
	}
	for _, hs := range byKey {
		for i := 0; i < len(hs); i++ {
			for j := i + 1; j < len(hs); j++ {
				a, b := hs[i], hs[j]
				if a.Task == b.Task {
					continue
				}
				if a.Call < b.Ret && b.Call < a.Ret && (isWriteOp(a.Op) || isWriteOp(b.Op)) {
					out.Overlaps++
				}
			}
		}
	}
}

// ---------------------------------------------------------------------------------------------
// linearizability (C02 / C09)

type kvState struct {
	present bool
	v       int
	// fin: values of loader calls whose installation step (installed or discarded) is over and that
	// some waiting Get returned - a waiter may only return once the load it joined has finished
	fin [4]int
}

func (s kvState) with(present bool, v int) kvState {
	s.present, s.v = present, v
	return s
}

func (s kvState) hasFin(v int) bool {
	for _, f := range s.fin {
		if f == v && v != 0 {
			return true
		}
	}
	return false
}

func (s kvState) addFin(v int) kvState {
	if s.hasFin(v) {
		return s
	}
	for i, f := range s.fin {
		if f == 0 {
			s.fin[i] = v
			// keep the set sorted so that equal sets are equal states
			for j := i; j > 0 && s.fin[j-1] > s.fin[j]; j-- {
				s.fin[j-1], s.fin[j] = s.fin[j], s.fin[j-1]
			}
			return s
		}
	}
	return s
}

type linIn struct {
	kind     string
	v        int
	comp     string
	calls    int
	saw      int
	sawFound bool
	mayWait  bool
	track    bool // install: some waiter returned this value, remember that the load has finished
}

type linOut struct {
	v     int
	ok    bool
	err   string
	panic bool
}

func linStep(state, input, output interface{}) []interface{} {
	s := state.(kvState)
	in := input.(linIn)
	out := output.(linOut)
	same := []interface{}{s}
	expect := func(v int, ok bool) bool { return !out.panic && out.v == v && out.ok == ok }
	cur := func() (int, bool) {
		if s.present {
			return s.v, true
		}
		return 0, false
	}
	switch in.kind {
	case "set":
		if s.present {
			if !expect(s.v, false) {
				return nil
			}
		} else if !expect(in.v, true) {
			return nil
		}
		return []interface{}{s.with(true, in.v)}
	case "setifabsent":
		if s.present {
			if !expect(s.v, false) {
				return nil
			}
			return same
		}
		if !expect(in.v, true) {
			return nil
		}
		return []interface{}{s.with(true, in.v)}
	case "get":
		v, ok := cur()
		if !expect(v, ok) {
			return nil
		}
		return same
	case "invalidate":
		v, ok := cur()
		if !expect(v, ok) {
			return nil
		}
		return []interface{}{s.with(false, 0)}
	case "compute", "computeifpresent":
		if in.calls == 0 {
			// ComputeIfPresent on an absent key
			if in.kind == "compute" || s.present || !expect(0, false) {
				return nil
			}
			return same
		}
		v, ok := cur()
		if in.kind == "computeifpresent" && !ok {
			return nil
		}
		if in.saw != v || in.sawFound != ok {
			return nil
		}
		switch in.comp {
		case "write":
			if !expect(in.v, true) {
				return nil
			}
			return []interface{}{s.with(true, in.v)}
		case "inval":
			if !expect(0, false) {
				return nil
			}
			return []interface{}{s.with(false, 0)}
		case "cancel":
			if !expect(v, ok) {
				return nil
			}
			return same
		case "panic":
			if !out.panic {
				return nil
			}
			return same
		}
		return nil
	case "computeifabsent":
		if in.calls == 0 {
			if !s.present || !expect(s.v, true) {
				return nil
			}
			return same
		}
		if s.present {
			return nil
		}
		switch in.comp {
		case "write":
			if !expect(in.v, true) {
				return nil
			}
			return []interface{}{s.with(true, in.v)}
		case "cancel":
			if !expect(0, false) {
				return nil
			}
			return same
		case "panic":
			if !out.panic {
				return nil
			}
			return same
		}
		return nil
	case "evict":
		if !s.present || s.v != in.v {
			return nil
		}
		return []interface{}{s.with(false, 0)}
	case "observemiss":
		if s.present {
			return nil
		}
		return same
	case "install":
		// A loading Get is two steps: it observed a miss, and later its result is either discarded
		// or installed. A write that landed between the miss and the start of the load is not
		// protected (C09 starts its window at the start of the load); writes after the start of the
		// load are checked by the stale-load rule, not here.
		if in.track {
			return []interface{}{s.addFin(in.v), s.with(true, in.v).addFin(in.v)}
		}
		return []interface{}{s, s.with(true, in.v)}
	case "uninstall":
		// a load that reports not-found removes whatever it finds when its call is still registered
		return []interface{}{s, s.with(false, 0)}
	case "loadres":
		// a Get that did not invoke the loader itself and returned out.v without error
		if s.present && s.v == out.v {
			return same
		}
		if in.mayWait && s.hasFin(out.v) {
			// it joined somebody else's load: that load has finished (its result installed or
			// discarded - C09) before the waiter returns, whatever happened to the key since
			return same
		}
		return nil
	}
	return nil
}

var linModel = (&porcupine.NondeterministicModel{
	Init: func() []interface{} { return []interface{}{kvState{}} },
	Step: linStep,
	DescribeOperation: func(input, output interface{}) string {
		return fmt.Sprintf("%+v -> %+v", input, output)
	},
}).ToModel()

func (cr *concRun) checkLin(out *ConcOutcome) {
	type kop struct {
		op porcupine.Operation
	}
	perKey := map[int][]porcupine.Operation{}
	skip := map[int]bool{}
	ownLoad := map[[2]int]*loadRec{}
	for _, l := range cr.r.Loads {
		if l.Task >= 0 && !l.Reload && !l.Bulk {
			ownLoad[[2]int{l.Task, l.OpIdx}] = l
		}
	}
	// install end of each loader call: the return of the operation that ran it
	loadEnd := func(l *loadRec) uint64 {
		for _, h := range cr.hist {
			if h.Task == l.Task && h.Idx == l.OpIdx && h.Task >= 0 {
				if h.Done {
					return h.Ret
				}
			}
		}
		return ^uint64(0) >> 2
	}
	c2 := func(x uint64) int64 { return int64(2 * x) }
	for _, h := range cr.hist {
		op := h.Op
		keys := keysOf(op)
		switch op.Kind {
		case "setexpires", "setrefreshable":
			for _, k := range keys {
				skip[k] = true
			}
			continue
		case "bulkget", "bulkrefresh", "refresh", "invalidateall":
			cr.linMultiKey(h, perKey, skip, c2)
			continue
		}
		if len(keys) != 1 {
			continue
		}
		k := keys[0]
		if !h.Done {
			skip[k] = true // an operation that never returned (task died): not modelled
			continue
		}
		res := linOut{v: h.Res.V, ok: h.Res.Ok, err: h.Res.Err, panic: h.Res.Panic}
		in := linIn{kind: op.Kind, v: op.V, comp: op.Comp, calls: h.Res.CompCalls, saw: h.Res.CompSaw, sawFound: h.Res.CompFound}
		add := func(in linIn, o linOut, call, ret int64) {
			perKey[k] = append(perKey[k], porcupine.Operation{ClientId: h.Task + 1, Input: in, Output: o, Call: call, Return: ret})
		}
		switch op.Kind {
		case "getentry", "getquiet":
			in.kind = "get"
			add(in, res, c2(h.Call), c2(h.Ret)+1)
		case "load":
			if l := ownLoad[[2]int{h.Task, h.Idx}]; l != nil && h.Task >= 0 {
				add(linIn{kind: "observemiss"}, linOut{}, c2(h.Call), c2(l.Enter)+1)
				if l.Outcome == "val" && l.Exit != 0 {
					add(linIn{kind: "install", v: l.Ret[k]}, linOut{}, c2(l.Exit), c2(h.Ret)+1)
				}
				if l.Outcome == "notfound" && l.Exit != 0 {
					add(linIn{kind: "uninstall"}, linOut{}, c2(l.Exit), c2(h.Ret)+1)
				}
			} else if h.Res.Err == "" && !h.Res.Panic {
				may := false
				for _, l := range cr.r.Loads {
					if v, ok := l.Ret[k]; ok && v == h.Res.V && l.Enter < h.Ret && loadEnd(l) > h.Call {
						may = true
					}
				}
				add(linIn{kind: "loadres", mayWait: may}, res, c2(h.Call), c2(h.Ret)+1)
			} else {
				// waited for somebody else's failing load: it observed a miss
				add(linIn{kind: "observemiss"}, linOut{}, c2(h.Call), c2(h.Ret)+1)
			}
		default:
			add(in, res, c2(h.Call), c2(h.Ret)+1)
		}
	}
	// background reloads (refresh of a stale entry): their result is installed, or the entry removed
	// on not-found, at some point between the loader's return and the end of the executor function
	for _, l := range cr.r.Loads {
		if !l.Reload || l.Bulk || l.Exit == 0 {
			continue
		}
		end := l.InstallEnd
		if end == 0 && l.TaskRef != nil && l.TaskRef.FinishSeq != 0 {
			end = l.TaskRef.FinishSeq
		}
		if end == 0 {
			end = ^uint64(0) >> 3
		}
		k := l.Keys[0]
		switch l.Outcome {
		case "val":
			perKey[k] = append(perKey[k], porcupine.Operation{ClientId: 0, Input: linIn{kind: "install", v: l.Ret[k]}, Output: linOut{}, Call: c2(l.Exit), Return: c2(end) + 1})
		case "notfound":
			perKey[k] = append(perKey[k], porcupine.Operation{ClientId: 0, Input: linIn{kind: "uninstall"}, Output: linOut{}, Call: c2(l.Exit), Return: c2(end) + 1})
		}
	}
	for _, ev := range cr.r.Events {
		if ev.Atomic && (ev.Cause == otter.CauseOverflow || ev.Cause == otter.CauseExpiration) {
			end := ev.End
			if end < ev.Seq {
				end = ev.Seq
			}
			perKey[ev.K] = append(perKey[ev.K], porcupine.Operation{ClientId: 0, Input: linIn{kind: "evict", v: ev.V}, Output: linOut{}, Call: c2(ev.Seq), Return: c2(end) + 1})
		}
	}
	keys := make([]int, 0, len(perKey))
	for k := range perKey {
		keys = append(keys, k)
	}
	sort.Ints(keys)
	for _, k := range keys {
		ops := perKey[k]
		if skip[k] {
			cr.probe["lin-key-skipped-unsupported-op"]++
			continue
		}
		if len(ops) > 48 {
			cr.probe["lin-key-skipped-too-long"]++
			continue
		}
		if len(ops) < 2 {
			continue
		}
		// a Get that joined somebody else's load returns only after that load has finished: mark
		// the installation steps whose value a waiter returned, so that the model remembers them
		waited := map[int]bool{}
		hasLoad := false
		for _, o := range ops {
			in := o.Input.(linIn)
			if in.kind == "loadres" && in.mayWait {
				waited[o.Output.(linOut).v] = true
			}
			if in.kind == "loadres" || in.kind == "install" || in.kind == "uninstall" || in.kind == "observemiss" {
				hasLoad = true
			}
		}
		if len(waited) > 4 {
			cr.probe["lin-key-skipped-too-many-waited-loads"]++
			continue
		}
		if len(waited) > 0 {
			cr.probe["lin-waiters-checked-against-finished-load"] += len(waited)
			for i := range ops {
				if in := ops[i].Input.(linIn); in.kind == "install" && waited[in.v] {
					in.track = true
					ops[i].Input = in
				}
			}
		}
		res := porcupine.CheckOperationsTimeout(linModel, ops, 2*time.Second)
		out.LinChecked++
		switch res {
		case porcupine.Unknown:
			out.LinUnknown++
		case porcupine.Illegal:
			sort.Slice(ops, func(i, j int) bool { return ops[i].Call < ops[j].Call })
			s := ""
			for _, o := range ops {
				s += fmt.Sprintf("\n    c%d [%d,%d] %+v -> %+v", o.ClientId-1, o.Call/2, o.Return/2, o.Input, o.Output)
			}
			props := P("C02", "C09", "C15")
			if hasLoad {
				props = withProp(props, "C10") // "a successful load caches the value and returns it"
			}
			cr.fail(props, "lin.illegal", k, "history of key %d is not linearizable against the sequential map:%s", k, s)
		}
	}
}

// linMultiKey puts BulkGet, Refresh, BulkRefresh and InvalidateAll into the per-key histories: per
// key they decompose into the steps the single-key operations already use - a read of the cached
// value, an observed miss, the installation (or discarding) of a loader result, the removal after
// a not-found result - over the intervals in which those steps can have happened.
func (cr *concRun) linMultiKey(h *HistOp, perKey map[int][]porcupine.Operation, skip map[int]bool, c2 func(uint64) int64) {
	op := h.Op
	add := func(k int, in linIn, o linOut, call, ret uint64) {
		perKey[k] = append(perKey[k], porcupine.Operation{ClientId: h.Task + 1, Input: in, Output: o, Call: c2(call), Return: c2(ret) + 1})
	}
	allKeys := append([]int(nil), keysOf(op)...)
	if op.Load != nil {
		allKeys = append(allKeys, op.Load.Extra...)
	}
	if !h.Done {
		for _, k := range allKeys {
			skip[k] = true
		}
		if op.Kind == "invalidateall" {
			for k := 0; k < cr.cc.Cfg.Keys+2; k++ {
				skip[k] = true
			}
		}
		return
	}
	if op.Kind == "invalidateall" {
		// per key: a removal of exactly the value this call reported, or nothing at all
		for _, ev := range cr.r.Events {
			if !ev.Atomic || ev.Task != h.Task || ev.OpIdx != h.Idx || h.Task < 0 {
				continue
			}
			if ev.Cause == otter.CauseInvalidation {
				add(ev.K, linIn{kind: "invalidate"}, linOut{v: ev.V, ok: true}, h.Call, h.Ret)
			} else if ev.Cause != otter.CauseOverflow && ev.Cause != otter.CauseExpiration {
				skip[ev.K] = true
			}
		}
		return
	}
	var recs []*loadRec
	for _, l := range cr.r.Loads {
		if l.Op == op {
			recs = append(recs, l)
		}
	}
	has := func(l *loadRec, k int) bool {
		for _, x := range l.Keys {
			if x == k {
				return true
			}
		}
		return false
	}
	outcome := func(l *loadRec, k int) {
		// what the finished loader call does to key k: install its value, remove the entry (not
		// found / omitted), or nothing (error, panic)
		if l.Exit == 0 {
			return
		}
		end := cr.loadInstallEnd(l)
		switch {
		case l.Outcome == "val":
			if v, ok := l.Ret[k]; ok {
				add(k, linIn{kind: "install", v: v}, linOut{}, l.Exit, end)
			} else {
				add(k, linIn{kind: "uninstall"}, linOut{}, l.Exit, end)
			}
		case l.Outcome == "notfound":
			add(k, linIn{kind: "uninstall"}, linOut{}, l.Exit, end)
		}
	}
	seen := map[int]bool{}
	for _, k := range keysOf(op) {
		if seen[k] {
			continue
		}
		seen[k] = true
		var miss, reload *loadRec
		for _, l := range recs {
			if has(l, k) {
				if l.Reload {
					reload = l
				} else {
					miss = l
				}
			}
		}
		switch op.Kind {
		case "refresh", "bulkrefresh":
			switch {
			case reload != nil:
				old := 0
				for i, x := range reload.Keys {
					if x == k && i < len(reload.Olds) {
						old = reload.Olds[i]
					}
				}
				add(k, linIn{kind: "get"}, linOut{v: old, ok: true}, h.Call, reload.Enter)
				if reload.Bulk {
					outcome(reload, k) // single reloads are added with the background reloads
				}
			case miss != nil:
				// Refresh looks the entry up quietly, and a quiet look-up can miss a key whose value
				// is being replaced at that moment (the old node is retired before the new one is
				// published; no listed property forbids that): no "observed a miss" step, only the
				// outcome of the load it then started
				outcome(miss, k)
			default:
				// neither: it joined a call that was already in flight. The result it delivers is that
				// call's: like a waiting Get it may only be delivered once the load has finished (its
				// value installed or discarded) - a Refresh that reports the reloaded value while the
				// cache still serves the old one has been released too early
				for _, rr := range h.Res.Refresh {
					if rr.K != k || rr.Err != "" {
						continue
					}
					for _, l := range cr.r.Loads {
						if lv, ok := l.Ret[k]; ok && lv == rr.V && l.Outcome == "val" && l.Op != op {
							add(k, linIn{kind: "loadres", mayWait: true}, linOut{v: rr.V, ok: true}, h.Call, h.Ret)
							cr.probe["lin-refresh-joiners-checked-against-finished-load"]++
							break
						}
					}
				}
			}
		case "bulkget":
			v, inRes := h.Res.Map[k]
			failed := h.Res.Panic || h.Res.Err != ""
			switch {
			case miss != nil:
				add(k, linIn{kind: "observemiss"}, linOut{}, h.Call, miss.Enter)
				outcome(miss, k)
				if inRes && (miss.Outcome != "val" || miss.Ret[k] != v) {
					skip[k] = true // the result carries a value this call's own load did not produce
				}
			case reload != nil:
				old, okOld := 0, false
				for i, x := range reload.Keys {
					if x == k && i < len(reload.Olds) {
						old, okOld = reload.Olds[i], true
					}
				}
				if !okOld || (inRes && v != old) {
					skip[k] = true
					break
				}
				add(k, linIn{kind: "get"}, linOut{v: old, ok: true}, h.Call, reload.Enter)
				outcome(reload, k)
			case failed:
				// the call failed (error or panic of its own or a joined load): its result map says
				// nothing about the keys it found cached
			case inRes:
				may := false
				for _, l := range cr.r.Loads {
					if lv, ok := l.Ret[k]; ok && lv == v && l.Outcome == "val" && l.Enter < h.Ret && cr.loadInstallEnd(l) > h.Call {
						may = true
					}
				}
				add(k, linIn{kind: "loadres", mayWait: may}, linOut{v: v, ok: true}, h.Call, h.Ret)
			default:
				add(k, linIn{kind: "observemiss"}, linOut{}, h.Call, h.Ret)
			}
		}
	}
	// keys the bulk loader volunteered are installed (by a successful call) as well
	for _, l := range recs {
		if l.Outcome != "val" || l.Exit == 0 {
			continue
		}
		for _, k := range sortedKeys(l.Ret) {
			if !has(l, k) {
				add(k, linIn{kind: "install", v: l.Ret[k]}, linOut{}, l.Exit, cr.loadInstallEnd(l))
			}
		}
	}
}

// dumpTimeline prints the merged history of a concurrent run (replay debugging, VERIF_TRACE=1).
func (cr *concRun) dumpTimeline() {
	type line struct {
		at uint64
		s  string
	}
	var ls []line
	for _, h := range cr.hist {
		ls = append(ls, line{h.Call, fmt.Sprintf("c%d#%d CALL %s now=%d", h.Task, h.Idx, h.Op, h.Now)})
		if h.Done {
			if len(h.Res.Entries) > 0 {
				ents := ""
				for _, e := range h.Res.Entries {
					if e.K < 100 {
						ents += fmt.Sprintf(" %d:%d", e.K, e.V)
					}
				}
				ls = append(ls, line{h.Ret, fmt.Sprintf("c%d#%d RET  %s -> %d entries; keys<100:%s", h.Task, h.Idx, h.Op.Kind, len(h.Res.Entries), ents)})
				continue
			}
			ls = append(ls, line{h.Ret, fmt.Sprintf("c%d#%d RET  %s -> v=%d ok=%v err=%q map=%v refresh=%v calls=%d saw=%d/%v", h.Task, h.Idx, h.Op.Kind, h.Res.V, h.Res.Ok, h.Res.Err, h.Res.Map, h.Res.Refresh, h.Res.CompCalls, h.Res.CompSaw, h.Res.CompFound)})
		}
	}
	for _, ev := range cr.r.Events {
		ls = append(ls, line{ev.Seq, fmt.Sprintf("   EVENT atomic=%v k=%d v=%d cause=%s ctx=task%d#%d(%s) end=%d", ev.Atomic, ev.K, ev.V, ev.Cause, ev.Task, ev.OpIdx, ev.OpKind, ev.End)})
	}
	for _, l := range cr.r.Loads {
		tn := ""
		if l.TaskRef != nil {
			tn = l.TaskRef.Name
		}
		ls = append(ls, line{l.Enter, fmt.Sprintf("   LOADER enter keys=%v reload=%v olds=%v ctx=task%d#%d on %s plan=%+v", l.Keys, l.Reload, l.Olds, l.Task, l.OpIdx, tn, l.Plan)})
		if l.Exit != 0 {
			ls = append(ls, line{l.Exit, fmt.Sprintf("   LOADER exit  keys=%v ret=%v outcome=%s installEnd=%d", l.Keys, l.Ret, l.Outcome, l.InstallEnd)})
		}
	}
	sort.Slice(ls, func(i, j int) bool { return ls[i].at < ls[j].at })
	for _, l := range ls {
		fmt.Printf("%5d %s\n", l.at, l.s)
	}
	fmt.Printf("final all=%v\n", cr.finalAll)
	if cr.auditNoCleanup != nil {
		fmt.Printf("audit(no cleanup): %+v\n", *cr.auditNoCleanup)
	}
	if cr.auditFinal != nil {
		fmt.Printf("audit(final): %+v\n", *cr.auditFinal)
	}
	fmt.Printf("live at end: %v\n", cr.liveAtEnd)
}

// checkSweep (C13, concurrent form): after all writes returned, the clock moved on by more than one
// tick and CleanUp ran, no entry whose deadline lies more than a tick in the past may physically remain.
func (cr *concRun) checkSweep() {
	if !cr.opts.SweepCheck || cr.auditFinal == nil {
		return
	}
	for _, e := range cr.rawAfterSweep {
		cr.probe["sweep-entries-examined"]++
		if e.ExpiresAtNano < cr.sweepNow-tickSlack {
			cr.fail(P("C13"), "sweep.not-swept", e.Key, "after CleanUp at clock %d key %d (value %d, deadline %d, %d ns overdue) is still physically present", cr.sweepNow, e.Key, e.Value, e.ExpiresAtNano, cr.sweepNow-e.ExpiresAtNano)
		}
	}
	exp := 0
	for _, ev := range cr.r.Events {
		if ev.Atomic && ev.Cause == otter.CauseExpiration {
			exp++
		}
	}
	cr.probe["sweep-expiration-events"] += exp
}

// checkRefreshTrigger (C11, concurrent form): the Get that finds a stale entry and hands the reload
// to the executor returns the value that was cached at that moment, i.e. the old value the reload
// was given - never the reloaded one.
func (cr *concRun) checkRefreshTrigger() {
	for _, l := range cr.r.Loads {
		if !l.Reload || l.Bulk || l.Op == nil || l.Op.Kind != "load" || len(l.Olds) != 1 {
			continue
		}
		for _, h := range cr.hist {
			if h.Op == l.Op && h.Done && !h.Res.Panic {
				cr.probe["refresh-triggering-gets"]++
				if h.Res.Err != "" || h.Res.V != l.Olds[0] {
					cr.fail(P("C11"), "refresh.trigger-value", h.Op.K, "Get of key %d triggered a reload of old value %d but returned (%d,%q)", h.Op.K, l.Olds[0], h.Res.V, h.Res.Err)
				}
				if nv, ok := l.Ret[h.Op.K]; ok && nv == h.Res.V {
					cr.fail(P("C11"), "refresh.returned-reloaded", h.Op.K, "Get of key %d returned the reloaded value %d", h.Op.K, nv)
				}
			}
		}
	}
}

// checkFreshNotReloaded (C11: "reads of fresh entries trigger nothing"): a reload that a Get or
// BulkGet handed to the executor was given the old value v; v's refresh deadline is the clock sample
// of the operation that installed v plus what the refresh calculator returned for it, and the read
// that triggered the reload sampled the clock no later than its own return. If even the latest
// possible sample of the read lies before the earliest possible deadline of v, a fresh entry was
// reloaded. Applied only where the deadline of v can be bounded from the outside: every refresh
// calculator returns a positive duration for (k, v) (so nothing is inherited from an older value) and
// no SetRefreshableAfter touches the key in the run. Explicit Refresh / BulkRefresh reload regardless
// of freshness and are not judged.
func (cr *concRun) checkFreshNotReloaded() {
	cfg := &cr.cc.Cfg
	if !cfg.withRefresh() {
		return
	}
	overridden := map[int]bool{}
	lb := map[int]int64{} // value -> lower bound of the clock sample its installation used
	for _, h := range cr.hist {
		op := h.Op
		switch op.Kind {
		case "setrefreshable":
			overridden[op.K] = true
		case "set", "setifabsent", "compute", "computeifpresent", "computeifabsent":
			if _, dup := lb[op.V]; !dup {
				lb[op.V] = h.Now
			}
		}
	}
	for _, l := range cr.r.Loads {
		for _, v := range l.Ret {
			if _, dup := lb[v]; !dup {
				lb[v] = l.NowEnter
			}
		}
	}
	for _, l := range cr.r.Loads {
		if !l.Reload || l.Op == nil || (l.Op.Kind != "load" && l.Op.Kind != "bulkget") || len(l.Olds) != len(l.Keys) {
			continue
		}
		var trig *HistOp
		for _, h := range cr.hist {
			if h.Op == l.Op {
				trig = h
				break
			}
		}
		if trig == nil || !trig.Done {
			continue
		}
		for i, k := range l.Keys {
			v := l.Olds[i]
			t0, ok := lb[v]
			if !ok || overridden[k] {
				continue
			}
			ds := []int64{cfg.refCreate(k, v), cfg.refUpdate(k, v), cfg.refReload(k, v)}
			dmin := int64(math.MaxInt64)
			for _, d := range ds {
				if d < dmin {
					dmin = d
				}
			}
			if dmin <= 0 {
				continue
			}
			cr.probe["reload-triggers-checked-for-freshness"]++
			deadline := t0 + dmin
			if deadline < t0 {
				deadline = math.MaxInt64
			}
			// A failing load made for a refresh applies RefreshAfterReloadFailure to whatever entry the
			// key holds when it finishes - also when it was started (and sampled the clock) long before
			// v was installed and was delayed since. Its sample is at least the clock at which its
			// loader was entered.
			if f := cfg.refFail(k, v); f < 0 {
				continue
			} else if f > 0 {
				for _, fl := range cr.r.Loads {
					if !(fl.Reload || (fl.Op != nil && (fl.Op.Kind == "refresh" || fl.Op.Kind == "bulkrefresh"))) {
						continue
					}
					if !(fl.Outcome == "err" || fl.Outcome == "panic" || (fl.Bulk && fl.Outcome == "notfound")) {
						continue
					}
					for _, fk := range fl.Keys {
						if fk == k {
							if d, _ := addDeadline(fl.NowEnter, f); d < deadline {
								deadline = d
							}
						}
					}
				}
			}
			if trig.NowRet < deadline {
				cr.fail(P("C11"), "refresh.fresh-entry-reloaded", k, "key %d: a read (task %d op %d, clock <= %d) handed a reload of value %d to the executor although that value was installed at clock >= %d and stays fresh for at least %d ns (earliest refresh time %d)", k, trig.Task, trig.Idx, trig.NowRet, v, t0, dmin, deadline)
			}
		}
	}
}

// checkJoinedFinishedLoad (C08: a loader that fails "releases all waiters and leaves no in-flight
// record behind, so a later Get loads afresh"). A failing single loader hands back a value next to
// its error; that value is unique, is never cached, and so identifies the loader invocation whose
// outcome a Get returned. Once any caller has *returned* with that outcome the load is over; a Get
// invoked after that moment which returns the same outcome has joined a finished load instead of
// loading afresh (or joining a load that is still running).
func (cr *concRun) checkJoinedFinishedLoad() {
	for _, l := range cr.r.Loads {
		if l.Bulk || l.Outcome != "err" || len(l.Keys) != 1 {
			continue
		}
		k := l.Keys[0]
		v, ok := l.Ret[k]
		if !ok {
			continue
		}
		var recv []*HistOp
		for _, h := range cr.hist {
			if h.Done && h.Op.Kind == "load" && h.Op.K == k && h.Res.Err == "err" && h.Res.V == v {
				recv = append(recv, h)
			}
		}
		if len(recv) < 2 {
			continue
		}
		cr.probe["failed-load-outcome-shared-by-several-callers"]++
		for _, late := range recv {
			for _, early := range recv {
				if early != late && late.Call > early.Ret {
					cr.fail(P("C08"), "load.joined-finished-load", k, "key %d: Get of task %d (invoked at %d) returned the outcome of the failing loader call entered at %d (value %d) although task %d had already returned with that outcome at %d: the load was over and its in-flight record should have been gone", k, late.Task, late.Call, l.Enter, v, early.Task, early.Ret)
					return
				}
			}
		}
	}
}

// checkGetResultProduced (C08: a waiter "receives its result"; C10: "a successful load caches the
// value and returns it"): a Get that returns without error returns a value that somebody produced
// for that key - an explicit write or a loader call. A waiter that is released with nothing (zero
// value, nil error) because the loader it waited for panicked or failed has received no result.
func (cr *concRun) checkGetResultProduced() {
	var ins map[int]*installInfo
	for _, h := range cr.hist {
		if !h.Done || h.Op.Kind != "load" || h.Res.Panic || h.Res.Err != "" {
			continue
		}
		if ins == nil {
			ins = cr.installs() // explicit writes and the values of successful loader calls
		}
		if info := ins[h.Res.V]; info != nil && info.k == h.Op.K {
			continue
		}
		cr.fail(P("C08", "C10"), "load.result-not-produced", h.Op.K, "Get of key %d by task %d ([%d,%d]) returned (%d, nil): no write and no successful loader call produced that value for that key", h.Op.K, h.Task, h.Call, h.Ret, h.Res.V)
	}
}

// configuredMaximum: the maximum the callers configured last, if that is unambiguous (every pair of
// SetMaximum calls is ordered in real time).
func (cr *concRun) configuredMaximum() (uint64, bool) {
	want := cr.cc.Cfg.Max
	var sets []*HistOp
	for _, h := range cr.hist {
		if h.Op.Kind == "setmax" {
			if !h.Done {
				return 0, false
			}
			sets = append(sets, h)
		}
	}
	var last *HistOp
	for _, a := range sets {
		for _, b := range sets {
			if a != b && a.Call < b.Ret && b.Call < a.Ret {
				return 0, false // overlapping calls: either may have been applied last
			}
		}
		if last == nil || a.Call > last.Call {
			last = a
		}
	}
	if last != nil {
		want = uint64(last.Op.D)
	}
	return want, true
}
