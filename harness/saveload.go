package zzverif

import (
	"bytes"
	"errors"
	"io"
	"math"
	"sort"

	otter "github.com/maypok86/otter/v2"
	"verifsim/simrt"
)

// SaveLoadPlan: after the program ran, save the cache to a simulated stream, let the clock advance,
// and load into a fresh cache (C19).
type SaveLoadPlan struct {
	Delta     int64  `json:"delta"`      // clock offset between save and load
	TMax      uint64 `json:"tmax"`       // target maximum (0: same as the source's current maximum)
	ChunkSeed uint64 `json:"chunk_seed"` // short-read pattern of the reader
	MaxChunk  int    `json:"max_chunk"`
	CleanUp   bool   `json:"cleanup"`             // run CleanUp on the source before saving
	HoldExec  bool   `json:"hold_exec,omitempty"` // harness-held executor: what was handed to it runs only after the save
	ReadAdv   int64  `json:"read_adv,omitempty"`  // the stream is slow: every Read of the load moves the clock by this much
	// Fault (separate, relaxed configuration): "truncate" - the stream ends early; "readerr" - a Read
	// fails after FaultAt per mille of the bytes; "writeerr" - a Write of the save fails after that
	// share and what was written until then is loaded. C19 does not speak about failing streams: the
	// save / load results are only counted, but whatever is loaded must still be a saved, unexpired
	// entry with its deadlines.
	Fault   string `json:"fault,omitempty"`
	FaultAt int    `json:"fault_at,omitempty"`
}

var errStream = errors.New("verif: injected stream error")

// simStream is the simulated "disk": writes are kept; reads come back in short, irregular chunks,
// sometimes delivering the last bytes together with io.EOF.
type simStream struct {
	buf      bytes.Buffer
	rng      simrt.Rng
	maxChunk int
	Reads    int
	Short    int
	EOFWith  int
	onRead   func()
	// fault injection
	writeBudget int // >= 0: Write fails once this many bytes were written (-1: never)
	readBudget  int // >= 0: bytes that can still be read before the fault (-1: never)
	readFault   string
	wroteErr    bool
}

func (s *simStream) Write(p []byte) (int, error) {
	if s.writeBudget >= 0 {
		if len(p) > s.writeBudget {
			n, _ := s.buf.Write(p[:s.writeBudget])
			s.writeBudget = 0
			s.wroteErr = true
			return n, errStream
		}
		s.writeBudget -= len(p)
	}
	return s.buf.Write(p)
}
func (s *simStream) Read(p []byte) (int, error) {
	if len(p) == 0 {
		return 0, nil
	}
	if s.buf.Len() == 0 {
		return 0, io.EOF
	}
	if s.readBudget == 0 {
		if s.readFault == "readerr" {
			return 0, errStream
		}
		return 0, io.EOF // truncated
	}
	n := len(p)
	if s.readBudget > 0 && n > s.readBudget {
		n = s.readBudget
	}
	if s.maxChunk > 0 {
		c := 1 + s.rng.Intn(s.maxChunk)
		if c < n {
			n = c
			s.Short++
		}
	}
	s.Reads++
	if s.onRead != nil {
		s.onRead()
	}
	m, _ := s.buf.Read(p[:n])
	if s.readBudget > 0 {
		s.readBudget -= m
	}
	if s.buf.Len() == 0 && s.rng.Bool() {
		s.EOFWith++
		return m, io.EOF
	}
	return m, nil
}

func (s *seqState) saveLoad(w *simrt.World, sc *SeqCase) {
	pl := sc.SaveLoad
	m, r := s.m, s.r
	cfg := m.cfg
	props := P("C19")
	if pl.CleanUp {
		r.C.CleanUp()
		evs := r.Events[s.evStart:]
		s.evStart = len(r.Events)
		s.pending = s.pending[:0]
		s.matchEvents(&Op{Kind: "cleanup"}, evs)
	}
	m.now = w.Now
	tSave := m.now
	st := &simStream{rng: simrt.NewRng(pl.ChunkSeed, 77), maxChunk: pl.MaxChunk, writeBudget: -1, readBudget: -1}
	faulty := pl.Fault != ""
	if pl.Fault == "writeerr" {
		st.writeBudget = pl.FaultAt // bytes
	}
	if err := otter.SaveCacheTo(r.C, st); err != nil {
		if !faulty {
			m.fail(props, "save.error", -1, "SaveCacheTo failed on a healthy stream: %v", err)
			return
		}
		r.fault("stream-write-error")
		m.Probes["save-returned-the-stream-error"]++
	} else if st.wroteErr {
		m.Probes["save-swallowed-a-stream-error"]++
	}
	if pl.Fault == "truncate" || pl.Fault == "readerr" {
		st.readFault = pl.Fault
		st.readBudget = st.buf.Len() * pl.FaultAt / 1000
		r.fault("stream-" + pl.Fault)
	}
	// events caused by the save itself (maintenance under Hottest)
	evs := r.Events[s.evStart:]
	s.evStart = len(r.Events)
	s.pending = s.pending[:0]
	s.matchEvents(&Op{Kind: "save"}, evs)
	// what the source holds once the save's own maintenance has run (with a held executor the save is
	// the first to replay the pending writes, and may evict): that is what must have been written
	savedVisible := map[int]mEntry{}
	var savedWeight uint64
	for k, e := range m.m {
		if m.visible(k) != nil {
			savedVisible[k] = *e
			savedWeight += uint64(e.W)
		}
	}
	r.Advance(pl.Delta)
	m.now = w.Now
	tLoad := m.now
	tcfg := *cfg
	srcMax := m.max
	if cfg.bounded() {
		tcfg.Max = srcMax
		if pl.TMax > 0 {
			tcfg.Max = pl.TMax
		}
		if tcfg.Max == 0 {
			tcfg.Max = 1
		}
	}
	tr := NewRunner(w, &tcfg)
	if pl.ReadAdv > 0 {
		// a slow stream: the clock moves while LoadCacheFrom reads, so "load time" is an interval
		st.onRead = func() { r.fault("stream-read-takes-time"); r.Advance(pl.ReadAdv) }
	}
	var loadErr error
	panicked := func() (p any) {
		defer func() { p = recover() }()
		loadErr = otter.LoadCacheFrom(tr.C, st)
		return nil
	}()
	if panicked != nil {
		if !faulty {
			panic(panicked)
		}
		m.Probes["load-panicked-on-a-faulty-stream"]++ // an observation, not a verdict: C19 does not cover it
		return
	}
	if loadErr != nil {
		if !faulty {
			m.fail(props, "load.error", -1, "LoadCacheFrom failed on a healthy stream: %v", loadErr)
			return
		}
		m.Probes["load-returned-an-error-on-a-faulty-stream"]++
	} else if faulty {
		m.Probes["load-returned-nil-on-a-faulty-stream"]++
	}
	st.onRead = nil
	m.now = w.Now
	tLoad0 := tLoad // clock when the load began; tLoad: clock when it ended
	tLoad = m.now
	if tLoad != tLoad0 {
		m.Probes["saveload-clock-moved-during-load"]++
	}
	m.Probes["saveload"]++
	m.Probes["stream-short-reads"] += st.Short
	m.Probes["stream-eof-with-data"] += st.EOFWith
	tr.C.CleanUp()
	// what must / may be in the target
	live := map[int]mEntry{}
	for k, e := range savedVisible {
		if e.ExpNever || e.Exp > tLoad {
			live[k] = e
		}
	}
	got := map[int]otter.Entry[int, int]{}
	for k := range tr.C.Keys() {
		e, ok := tr.C.GetEntryQuietly(k)
		if ok {
			got[k] = e
		}
	}
	keys := make([]int, 0, len(got))
	for k := range got {
		keys = append(keys, k)
	}
	sort.Ints(keys)
	var gotWeight uint64
	for _, k := range keys {
		e := got[k]
		gotWeight += uint64(e.Weight)
		src, ok := live[k]
		if !ok {
			_, wasSaved := savedVisible[k]
			m.fail(withProp(props, "C03"), "load.extra", k, "target holds key %d value %d which was absent or expired at load time (clock %d; visible at save: %v, source entry %+v)", k, e.Value, tLoad, wasSaved, savedVisible[k])
			continue
		}
		if e.Value != src.V {
			m.fail(props, "load.value", k, "target key %d value %d, source %d", k, e.Value, src.V)
		}
		if cfg.withExpiry() {
			if src.ExpNever {
				m.Probes["saveload-never-deadline"]++
				// must still be "never": beyond every clock value a run can reach
				if e.ExpiresAtNano < never-4096 {
					m.fail(props, "load.never", k, "source key %d never expires, target expires at %d (load clock %d)", k, e.ExpiresAtNano, tLoad)
				}
			} else if e.ExpiresAtNano != src.Exp {
				m.fail(props, "load.expiry", k, "target key %d expires at %d, source deadline %d (save clock %d, load clock %d)", k, e.ExpiresAtNano, src.Exp, tSave, tLoad)
			}
		}
		if cfg.withRefresh() && !src.RefNever {
			if src.Ref > tLoad {
				if e.RefreshableAtNano != src.Ref {
					m.fail(props, "load.refresh", k, "target key %d refreshable at %d, source %d (load clock %d)", k, e.RefreshableAtNano, src.Ref, tLoad)
				}
			} else if e.RefreshableAtNano > tLoad+1 {
				m.fail(props, "load.refresh-due", k, "target key %d was due for refresh (source %d <= load clock %d) but is refreshable at %d", k, src.Ref, tLoad, e.RefreshableAtNano)
			}
		}
	}
	tmax := uint64(math.MaxUint64)
	if cfg.bounded() {
		tmax = tcfg.Max
	}
	if faulty {
		// only a prefix of the stream arrived: nothing is demanded to be there, the bound still holds
		m.Probes["saveload-faulty-stream-entries-loaded"] += len(got)
		if gotWeight > tmax {
			m.fail(withProp(props, "C04"), "load.bound", -1, "target holds weight %d > its maximum %d", gotWeight, tmax)
		}
	} else if savedWeight <= tmax && savedWeight <= srcMax {
		m.Probes["saveload-fits"]++
		for _, k := range sortedKeys(live) {
			src := live[k]
			if _, ok := got[k]; !ok {
				m.fail(props, "load.missing", k, "saved contents (weight %d) fit the target maximum %d but live key %d (value %d, weight %d, deadline %d) was not loaded (load clock %d)", savedWeight, tmax, k, src.V, src.W, src.Exp, tLoad)
			}
		}
	} else {
		m.Probes["saveload-does-not-fit"]++
		if gotWeight > tmax {
			m.fail(withProp(props, "C04"), "load.bound", -1, "target holds weight %d > its maximum %d", gotWeight, tmax)
		}
	}
	// "never" deadlines survive: far in the future the entry is still there
	tr.C.StopAllGoroutines()
}
