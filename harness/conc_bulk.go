package zzverif

// Results of BulkGet under concurrency (C10): "BulkGet returns exactly the requested keys that were
// cached or that the loader supplied (each distinct key at most once, absent keys absent from the
// result)". With other tasks writing and loading the same keys the exact value is not determined,
// but three things are:
//
//	bulk.result-extra     every key of the result was requested
//	bulk.result-value     every value of the result is a value some explicit write or some loader call
//	                      produced for that very key (values are unique per write / loader call)
//	bulk.result-missing   a requested key is absent from a result returned without error only if a
//	                      loader call covering that key, overlapping the BulkGet, did not supply it
//	                      (not-found, omitted, failed) - a key that was cached or whose every
//	                      overlapping load supplied a value has to be there
func (cr *concRun) checkBulkResults() {
	ins := cr.installs()
	// values loader calls produced per key, whether or not they were installed
	produced := map[int]map[int]bool{}
	for _, l := range cr.r.Loads {
		for k, v := range l.Ret {
			if produced[k] == nil {
				produced[k] = map[int]bool{}
			}
			produced[k][v] = true
		}
	}
	for _, h := range cr.hist {
		if h.Op.Kind != "bulkget" || !h.Done || h.Res.Panic {
			continue
		}
		req := map[int]bool{}
		for _, k := range h.Op.Ks {
			req[k] = true
		}
		for _, k := range sortedKeys(h.Res.Map) {
			v := h.Res.Map[k]
			if !req[k] {
				cr.fail(P("C10"), "bulk.result-extra", k, "BulkGet(%v) by task %d returned key %d=%d which was not requested", h.Op.Ks, h.Task, k, v)
				continue
			}
			ok := produced[k][v]
			if info := ins[v]; info != nil && info.k == k {
				ok = true
			}
			if !ok {
				cr.fail(P("C10", "C02"), "bulk.result-value", k, "BulkGet(%v) by task %d returned %d for key %d: no write and no loader call produced that value for that key", h.Op.Ks, h.Task, v, k)
			}
		}
		if h.Res.Err != "" {
			continue
		}
		cr.probe["conc-bulkget-results-checked"]++
		for _, k := range sortedKeys(req) {
			if _, ok := h.Res.Map[k]; ok {
				continue
			}
			excused := false
			ownSupplied := false
			for _, l := range cr.r.Loads {
				// only the load this call made for its missing keys: the reload of stale entries that the
				// same BulkGet hands to the executor runs with the same loader and may volunteer the key
				// later, after the call has returned ("caches additional keys ... without returning them")
				if l.Op == h.Op && l.Outcome == "val" && !l.Reload && l.Exit != 0 && l.Exit < h.Ret {
					if _, ok := l.Ret[k]; ok {
						ownSupplied = true
					}
				}
			}
			if ownSupplied {
				cr.fail(P("C10"), "bulk.result-missing-supplied", k, "BulkGet(%v) by task %d ([%d,%d]) returned without error and without the requested key %d although its own loader call supplied a value for that key", h.Op.Ks, h.Task, h.Call, h.Ret, k)
				continue
			}
			for _, l := range cr.r.Loads {
				// the call stays registered (and joinable) until its owner has applied the outcome
				if l.Enter >= h.Ret || cr.loadInstallEnd(l) <= h.Call {
					continue
				}
				for _, lk := range l.Keys {
					if lk == k {
						if _, supplied := l.Ret[k]; !supplied || l.Outcome != "val" {
							excused = true
						}
					}
				}
			}
			if !excused {
				cr.fail(P("C10"), "bulk.result-missing", k, "BulkGet(%v) by task %d ([%d,%d]) returned without error and without key %d although no loader call that overlaps it failed to supply that key", h.Op.Ks, h.Task, h.Call, h.Ret, k)
			}
		}
	}
}
