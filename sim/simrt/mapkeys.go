package simrt

import (
	"fmt"
	"sort"
)

// MapKeys returns the keys of m in an order that is a function of the run (sorted, then permuted by
// the run's stream): rewritten `range` statements over maps iterate over it.
func MapKeys[M ~map[K]V, K comparable, V any](m M) []K {
	keys := make([]K, 0, len(m))
	for k := range m {
		keys = append(keys, k)
	}
	w := W
	if w == nil || len(keys) < 2 {
		return keys
	}
	switch ks := any(keys).(type) {
	case []int:
		sort.Ints(ks)
	case []string:
		sort.Strings(ks)
	case []int64:
		sort.Slice(ks, func(i, j int) bool { return ks[i] < ks[j] })
	case []uint64:
		sort.Slice(ks, func(i, j int) bool { return ks[i] < ks[j] })
	default:
		strs := make([]string, len(keys))
		idx := make([]int, len(keys))
		for i := range keys {
			strs[i] = fmt.Sprintf("%#v", keys[i])
			idx[i] = i
		}
		sort.Slice(idx, func(a, b int) bool { return strs[idx[a]] < strs[idx[b]] })
		out := make([]K, len(keys))
		for i, j := range idx {
			out[i] = keys[j]
		}
		keys = out
	}
	for i := len(keys) - 1; i > 0; i-- {
		j := w.SelRng.Intn(i + 1)
		keys[i], keys[j] = keys[j], keys[i]
	}
	return keys
}
