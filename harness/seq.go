package zzverif

import (
	"fmt"
	"math"
	"os"
	"sort"

	otter "github.com/maypok86/otter/v2"
	"verifsim/simrt"
)

// tickSlack: "one timer tick (about 1.08 s)" from the statement of C13, rounded up.
const tickSlack = int64(1_100_000_000)

func P(ps ...string) []string { return ps }

func withProp(ps []string, extra ...string) []string {
	out := append([]string(nil), ps...)
	for _, e := range extra {
		found := false
		for _, p := range out {
			if p == e {
				found = true
			}
		}
		if !found {
			out = append(out, e)
		}
	}
	return out
}

// SeqCase is a sequential program: configuration + operations.
type SeqCase struct {
	Cfg      Cfg           `json:"config"`
	Ops      []Op          `json:"ops"`
	SaveLoad *SaveLoadPlan `json:"saveload,omitempty"`
	// Admission: pin the policy's random source and check, at cache level, that an entry of the main
	// region is displaced by a new arrival only if the arrival's estimate is strictly greater (C18).
	Admission bool `json:"admission,omitempty"`
}

type seqState struct {
	m        *Model
	r        *Runner
	evStart  int
	ldStart  int
	flexExp  map[int][]int64 // set-valued deadlines: candidates the documentation allows
	flexRef  map[int][]int64
	refFree  map[int]bool
	extraKey map[int]bool
	pending  []*subOp
	// opProps / opKeys: properties that additionally own a state mismatch on the keys the current
	// operation touched (a wrong deadline after a failed reload falsifies C11, not only C01/C12)
	opProps []string
	opKeys  map[int]bool
	phase   int // loader invocations of the current operation, in the model's order
}

// subOp is one write / removal an operation performs on the model. Application is deferred until
// the event stream of the operation is processed, because automatic removals (eviction, expiration)
// may interleave with the sub-operations of one call (e.g. BulkGet installing several keys).
type subOp struct {
	now     int64 // the model clock when the sub-operation was decided (a loader may have moved it)
	k       int
	remove  bool
	v       int
	kind    string
	applied bool
	// fromCall: the write is the installation of a loader result for a requested key. If the key is
	// evicted / expired between the start of the load and the installation, the result is handed to
	// the caller but need not be cached (C08/C09: "unless the key was written, invalidated or evicted
	// in between") - the model then accepts both outcomes and adopts the observed one.
	fromCall   bool
	mayDiscard bool
	// volunteered: a key the bulk loader supplied without being asked. Which refresh rule
	// (update or reload) applies to it is not specified: both deadlines are accepted.
	volunteered bool
	// optional: a removal that may or may not happen (a load, not a reload, that reports a
	// requested key as not found while the same call's other loader invocation volunteered it).
	optional bool
}

func (s *seqState) pendWrite(k, v int, kind string) {
	s.pending = append(s.pending, &subOp{now: s.m.now, k: k, v: v, kind: kind})
}
func (s *seqState) pendRemove(k int) {
	s.pending = append(s.pending, &subOp{now: s.m.now, k: k, remove: true})
}
func (s *seqState) pendLoadWrite(k, v int, kind string) {
	s.pending = append(s.pending, &subOp{now: s.m.now, k: k, v: v, kind: kind, fromCall: true})
}
func (s *seqState) pendLoadRemove(k int) {
	s.pending = append(s.pending, &subOp{now: s.m.now, k: k, remove: true, fromCall: true})
}

// loaderRuns: the model reaches the point where the real operation invokes its loader; a loader
// that takes time moves the clock (LoadPlan.Adv), everything decided afterwards (installation,
// refresh-failure deadlines) happens at the later clock.
func (s *seqState) loaderRuns(op *Op) {
	if a := planOf(op).Adv; a > 0 {
		s.m.now = satAdd(s.m.now, a)
		s.m.Probes["loader-moved-the-clock"]++
	}
}

func (s *seqState) firstPending(k int) *subOp {
	for _, p := range s.pending {
		if !p.applied && p.k == k {
			return p
		}
	}
	return nil
}

// applySub applies a sub-operation and returns the deletion event it must produce.
func (s *seqState) applySub(p *subOp) *expEvent {
	p.applied = true
	if p.now != 0 && p.now < s.m.now {
		// decided at an earlier clock than the operation's final one (a later loader call moved it)
		final := s.m.now
		s.m.now = p.now
		defer func() { s.m.now = final }()
	}
	if p.remove {
		return s.m.remove(p.k)
	}
	if _, open := s.flexRef[p.k]; open && s.m.cfg.withRefresh() {
		// a second write to a key whose refresh deadline is already set-valued within this
		// operation: the final deadline depends on the unresolved choice - adopt what is observed.
		s.refFree[p.k] = true
		delete(s.flexRef, p.k)
	} else if p.volunteered && s.m.cfg.withRefresh() && s.m.visible(p.k) != nil {
		vis := s.m.visible(p.k)
		var cands []int64
		for _, d := range []int64{s.m.cfg.refUpdate(p.k, p.v), s.m.cfg.refReload(p.k, p.v)} {
			if d > 0 {
				x, _ := addDeadline(s.m.now, d)
				cands = append(cands, x)
			} else {
				cands = append(cands, vis.Ref)
			}
		}
		s.flexRef[p.k] = cands
	} else {
		delete(s.flexRef, p.k)
	}
	return s.m.write(p.k, p.v, p.kind)
}

func sameRes(gotV int, gotOk bool, wantV int, wantOk bool) bool {
	return gotV == wantV && gotOk == wantOk
}

// applySeq advances the model by one operation and compares what the cache returned / emitted.
func (s *seqState) applySeq(op *Op, res *Result) {
	m, r := s.m, s.r
	cfg := m.cfg
	k := op.K
	evs := r.Events[s.evStart:]
	loads := r.Loads[s.ldStart:]
	s.evStart, s.ldStart = len(r.Events), len(r.Loads)
	s.pending = s.pending[:0]
	s.phase = 0
	s.opProps, s.opKeys = nil, map[int]bool{}
	switch op.Kind {
	case "load", "bulkget":
		s.opProps = P("C10")
		if cfg.withRefresh() {
			s.opProps = P("C10", "C11")
		}
	case "refresh", "bulkrefresh":
		s.opProps = P("C11")
	case "set", "setifabsent", "compute", "computeifabsent", "computeifpresent", "invalidate", "invalidateall":
		s.opProps = P("C06")
	}
	for _, kk := range keysOf(op) {
		s.opKeys[kk] = true
	}
	if op.Load != nil {
		for _, kk := range op.Load.Extra {
			s.opKeys[kk] = true
		}
	}
	base := P("C01")
	keyOp := true
	switch op.Kind {
	case "bulkget", "bulkrefresh", "invalidateall", "all", "keys", "values", "hottest", "coldest", "setmax", "getmax", "wsize", "esize", "cleanup", "stats", "advance", "runexec":
		keyOp = false
	}
	state := "absent"
	if keyOp {
		if m.expiredUnswept(k) != nil {
			base = withProp(base, "C03")
			state = "expired-unswept"
		} else if m.visible(k) != nil {
			state = "live"
		}
		m.Probes["op:"+op.Kind+"@"+state]++
	}
	vis := m.visible(k)
	expectLoads := 0
	unexpectedPanic := func() {
		if res.Panic {
			m.fail(base, "ret.unexpected-panic", k, "%s panicked: %s", op.Kind, res.Err)
		}
	}
	ret := func(wantV int, wantOk bool) {
		if res.Panic {
			unexpectedPanic()
			return
		}
		if !sameRes(res.V, res.Ok, wantV, wantOk) {
			m.fail(base, "ret."+op.Kind, k, "%s returned (%d,%v), model (%d,%v) [key %s]", op, res.V, res.Ok, wantV, wantOk, state)
		}
	}
	switch op.Kind {
	case "set":
		if vis != nil {
			ret(vis.V, false)
		} else {
			ret(op.V, true)
		}
		s.pendWrite(k, op.V, "set")
	case "setifabsent":
		if vis != nil {
			ret(vis.V, false)
			m.readEffect(k)
		} else {
			ret(op.V, true)
			s.pendWrite(k, op.V, "set")
		}
	case "get":
		if vis != nil {
			ret(vis.V, true)
			m.hits++
			m.readEffect(k)
		} else {
			ret(0, false)
			m.misses++
		}
	case "getentry":
		if vis != nil {
			ret(vis.V, true)
			m.hits++
			pre := *vis
			m.readEffect(k)
			if res.Entry != nil {
				e := res.Entry
				if e.K != k || e.W != vis.W {
					m.fail(base, "ret.getentry-fields", k, "entry %+v model %+v", *e, *vis)
				}
				okExp := vis.ExpNever || pre.ExpNever || e.Exp == pre.Exp || e.Exp == vis.Exp
				if !okExp {
					m.fail(withProp(base, "C12"), "ret.getentry-expiry", k, "ExpiresAtNano=%d, model pre=%d post=%d", e.Exp, pre.Exp, vis.Exp)
				}
				if !vis.RefNever && e.Ref != vis.Ref {
					m.fail(withProp(base, "C12"), "ret.getentry-refresh", k, "RefreshableAtNano=%d, model %d", e.Ref, vis.Ref)
				}
			}
		} else {
			ret(0, false)
			m.misses++
		}
	case "getquiet":
		if vis != nil {
			ret(vis.V, true)
			if res.Entry != nil {
				s.cmpEntry(base, "ret.getquiet", k, *res.Entry, vis)
			}
		} else {
			ret(0, false)
		}
	case "compute":
		if res.CompCalls != 1 {
			m.fail(withProp(base, "C02"), "compute.calls", k, "callback ran %d times", res.CompCalls)
		}
		if res.CompFound != (vis != nil) || (vis != nil && res.CompSaw != vis.V) || (vis == nil && res.CompSaw != 0) {
			m.fail(base, "compute.saw", k, "callback saw (%d,%v), model visible=%v", res.CompSaw, res.CompFound, vis != nil)
		}
		if op.Comp != "panic" {
			if vis != nil {
				m.hits++
			} else {
				m.misses++
			}
		} else {
			m.Probes["stats-ambiguous"]++
		}
		s.applyComp(op, res, vis, base)
	case "computeifabsent":
		if vis != nil {
			ret(vis.V, true)
			m.hits++
			m.readEffect(k)
			if res.CompCalls != 0 {
				m.fail(base, "compute.calls", k, "ComputeIfAbsent ran the callback for a present key")
			}
		} else {
			m.misses++
			if res.CompCalls != 1 {
				m.fail(withProp(base, "C02"), "compute.calls", k, "callback ran %d times", res.CompCalls)
			}
			switch op.Comp {
			case "cancel":
				ret(0, false)
			case "panic":
				if !res.Panic {
					m.fail(base, "ret.panic-swallowed", k, "callback panic did not propagate")
				}
			default:
				ret(op.V, true)
				s.pendWrite(k, op.V, "set")
			}
		}
	case "computeifpresent":
		if vis == nil {
			ret(0, false)
			m.misses++
			if res.CompCalls != 0 {
				m.fail(base, "compute.calls", k, "ComputeIfPresent ran the callback for an absent key")
			}
		} else {
			m.hits++
			m.readEffect(k)
			if res.CompCalls != 1 {
				m.fail(withProp(base, "C02"), "compute.calls", k, "callback ran %d times", res.CompCalls)
			}
			if res.CompCalls == 1 && res.CompSaw != vis.V {
				m.fail(base, "compute.saw", k, "callback saw %d, model %d", res.CompSaw, vis.V)
			}
			s.applyComp(op, res, vis, base)
		}
	case "invalidate":
		if vis != nil {
			ret(vis.V, true)
		} else {
			ret(0, false)
		}
		s.pendRemove(k)
	case "invalidateall":
		unexpectedPanic()
		ks := make([]int, 0, len(m.m))
		for kk := range m.m {
			ks = append(ks, kk)
		}
		sort.Ints(ks)
		for _, kk := range ks {
			s.pendRemove(kk)
		}
	case "setexpires":
		unexpectedPanic()
		if vis != nil && op.D > 0 && cfg.withExpiry() {
			ne, nv := addDeadline(m.now, op.D)
			if nv || vis.ExpNever || ne < vis.Exp {
				if !(nv && vis.ExpNever) {
					vis.Shortened = vis.Shortened || (!nv && (vis.ExpNever || ne < vis.Exp))
				}
			}
			vis.Exp, vis.ExpNever = ne, nv
		}
	case "setrefreshable":
		unexpectedPanic()
		if vis != nil && op.D > 0 && cfg.withRefresh() {
			vis.Ref, vis.RefNever = addDeadline(m.now, op.D)
		}
	case "load":
		expectLoads = s.applyLoad(op, res, vis, base, loads)
	case "bulkget":
		expectLoads = s.applyBulkGet(op, res, loads)
	case "refresh":
		expectLoads = s.applyRefresh(op, res, vis, base, loads)
	case "bulkrefresh":
		expectLoads = s.applyBulkRefresh(op, res, loads)
	case "all", "keys", "values", "hottest", "coldest":
		unexpectedPanic()
		if (op.D2 > 0 || op.V != 0) && len(res.Entries) >= 1 {
			s.cmpIterMid(op, res)
		} else {
			s.cmpIter(op, res)
		}
	case "setmax":
		unexpectedPanic()
		if cfg.bounded() {
			m.max = uint64(op.D)
		}
	case "getmax":
		if res.Num != m.max {
			m.fail(P("C01", "C04"), "ret.getmax", -1, "GetMaximum=%d model %d", res.Num, m.max)
		}
	case "wsize":
		if cfg.Bound != "weight" {
			if res.Num != 0 {
				m.fail(P("C05"), "ret.wsize", -1, "WeightedSize=%d for an unweighted cache", res.Num)
			}
		} else {
			var visSum uint64
			for kk, e := range m.m {
				if m.visible(kk) != nil {
					visSum += uint64(e.W)
				}
			}
			phys := m.physWeight()
			if res.Num < visSum || res.Num > phys {
				m.fail(P("C05"), "ret.wsize", -1, "WeightedSize=%d, weights present=%d (physically present %d)", res.Num, visSum, phys)
			}
		}
	case "esize":
		// physical count: entries installed and not yet reported removed
		if int(res.Num) != len(m.m) {
			m.fail(P("C05", "C13"), "ret.esize", -1, "EstimatedSize=%d, physically present per events %d", res.Num, len(m.m))
		}
	case "cleanup":
		unexpectedPanic()
	case "stats":
		s.cmpStats(res)
	case "advance":
		m.now = satAdd(m.now, op.D)
	}
	if op.Kind != "load" && op.Kind != "bulkget" && op.Kind != "refresh" && op.Kind != "bulkrefresh" && len(loads) != 0 {
		m.fail(P("C11", "C10"), "load.unexpected", k, "%s invoked a loader %d times", op.Kind, len(loads))
	}
	_ = expectLoads
	s.matchEvents(op, evs)
	if op.Kind == "cleanup" {
		s.checkSwept()
	}
}

func (s *seqState) applyComp(op *Op, res *Result, vis *mEntry, base []string) {
	m := s.m
	k := op.K
	chk := func(wantV int, wantOk bool) {
		if res.Panic {
			m.fail(base, "ret.unexpected-panic", k, "%s panicked: %s", op.Kind, res.Err)
		} else if !sameRes(res.V, res.Ok, wantV, wantOk) {
			m.fail(base, "ret."+op.Kind, k, "%s returned (%d,%v), model (%d,%v)", op, res.V, res.Ok, wantV, wantOk)
		}
	}
	switch op.Comp {
	case "write":
		chk(op.V, true)
		s.pendWrite(k, op.V, "set")
	case "inval":
		chk(0, false)
		s.pendRemove(k)
	case "cancel":
		if vis != nil {
			chk(vis.V, true)
			// whether a cancelled compute counts as a read for access-based expiry is not
			// specified: accept both deadlines and adopt the observed one.
			if m.cfg.withExpiry() && op.Kind == "compute" {
				d := m.cfg.expRead(k, vis.V)
				if d > 0 {
					ne, nv := addDeadline(m.now, d)
					if !nv {
						s.flexExp[k] = []int64{vis.Exp, ne}
					}
				}
			}
		} else {
			chk(0, false)
		}
	case "panic":
		if !res.Panic {
			m.fail(base, "ret.panic-swallowed", k, "callback panic did not propagate")
		}
	}
}

func (s *seqState) cmpEntry(props []string, rule string, k int, got EntryView, e *mEntry) {
	m := s.m
	if got.K != k || got.V != e.V || got.W != e.W {
		m.fail(props, rule+"-fields", k, "entry %+v, model value=%d weight=%d", got, e.V, e.W)
	}
	if m.cfg.withExpiry() {
		if e.ExpNever {
			// must simply be visible (checked by presence)
		} else if cands, ok := s.flexExp[k]; ok {
			hit := false
			for _, c := range cands {
				if got.Exp == c {
					hit = true
					e.Exp = c
				}
			}
			if !hit {
				m.fail(withProp(props, "C12"), rule+"-expiry", k, "ExpiresAtNano=%d, model allows %v", got.Exp, cands)
			}
			delete(s.flexExp, k)
		} else if got.Exp != e.Exp {
			m.fail(withProp(props, "C12"), rule+"-expiry", k, "ExpiresAtNano=%d, model %d (now %d)", got.Exp, e.Exp, m.now)
		}
	} else if got.Exp != math.MaxInt64 {
		m.fail(withProp(props, "C12"), rule+"-expiry", k, "ExpiresAtNano=%d without expiry", got.Exp)
	}
	if s.refFree[k] && m.cfg.withRefresh() {
		e.Ref, e.RefNever = got.Ref, false
		delete(s.refFree, k)
		m.Probes["refresh-deadline-adopted"]++
	} else if cands, ok := s.flexRef[k]; ok && m.cfg.withRefresh() {
		hit := false
		for _, c := range cands {
			if got.Ref == c {
				hit = true
				e.Ref, e.RefNever = c, false
			}
		}
		if !hit {
			m.fail(withProp(props, "C12", "C11"), rule+"-refresh", k, "RefreshableAtNano=%d, model allows %v (now %d)", got.Ref, cands, m.now)
		}
		delete(s.flexRef, k)
	} else if m.cfg.withRefresh() {
		if !e.RefNever && got.Ref != e.Ref {
			m.fail(withProp(props, "C12", "C11"), rule+"-refresh", k, "RefreshableAtNano=%d, model %d (now %d)", got.Ref, e.Ref, m.now)
		}
	} else if got.Ref != math.MaxInt64 {
		m.fail(withProp(props, "C12"), rule+"-refresh", k, "RefreshableAtNano=%d without refresh", got.Ref)
	}
}

func (s *seqState) cmpIter(op *Op, res *Result) {
	m := s.m
	want := m.visibleKeys()
	seenK := map[int]int{}
	seenV := map[int]int{}
	for _, e := range res.Entries {
		seenK[e.K]++
		seenV[e.V]++
	}
	props := P("C01", "C15")
	switch op.Kind {
	case "hottest", "coldest":
		props = P("C01", "C05")
	}
	leak := func(k int) []string {
		if m.expiredUnswept(k) != nil {
			return withProp(props, "C03")
		}
		return props
	}
	if op.D > 0 {
		// early exit: the first min(D, n) entries, each a visible entry, none twice
		m.Probes["iterator-early-exit"]++
		n := len(want)
		if int(op.D) < n {
			n = int(op.D)
		}
		if len(res.Entries) != n {
			m.fail(props, "iter."+op.Kind+"-count", -1, "%s with early exit after %d yielded %d entries, %d are visible", op.Kind, op.D, len(res.Entries), len(want))
		}
		for _, e := range res.Entries {
			if op.Kind == "values" {
				found := false
				for _, k := range want {
					if m.m[k].V == e.V {
						found = true
					}
				}
				if !found || seenV[e.V] > 1 {
					m.fail(props, "iter.values", -1, "Values yielded %d (x%d) which is not a visible value", e.V, seenV[e.V])
				}
				continue
			}
			me := m.visible(e.K)
			if me == nil || seenK[e.K] > 1 {
				m.fail(leak(e.K), "iter."+op.Kind+"-extra", e.K, "%s yielded key %d (x%d) which the model does not hold", op.Kind, e.K, seenK[e.K])
			} else if op.Kind == "all" && e.V != me.V {
				m.fail(props, "iter.all-value", e.K, "All yielded %d=%d, model %d", e.K, e.V, me.V)
			}
		}
		return
	}
	if op.Kind == "values" {
		wantV := map[int]int{}
		for _, k := range want {
			wantV[m.m[k].V]++
		}
		for v, n := range seenV {
			if wantV[v] != n {
				kk := -1
				for k2, e := range m.m {
					if e.V == v {
						kk = k2
					}
				}
				m.fail(leak(kk), "iter.values", kk, "Values yielded %d x%d, model x%d", v, n, wantV[v])
			}
		}
		for v, n := range wantV {
			if seenV[v] != n {
				m.fail(props, "iter.values-missing", -1, "Values missed %d", v)
			}
		}
		return
	}
	for _, k := range want {
		if seenK[k] != 1 {
			m.fail(props, "iter."+op.Kind+"-missing", k, "%s yielded key %d %d times, model has it", op.Kind, k, seenK[k])
		}
	}
	for _, e := range res.Entries {
		me := m.visible(e.K)
		if me == nil {
			m.fail(leak(e.K), "iter."+op.Kind+"-extra", e.K, "%s yielded key %d (value %d) which the model does not hold", op.Kind, e.K, e.V)
			continue
		}
		switch op.Kind {
		case "all":
			if e.V != me.V {
				m.fail(props, "iter.all-value", e.K, "All yielded %d=%d, model %d", e.K, e.V, me.V)
			}
		case "hottest", "coldest":
			s.cmpEntry(props, "iter."+op.Kind, e.K, e, me)
		}
	}
}

// cmpIterMid: after the first element the caller's loop body wrote to the cache (op.V != 0: Set(op.K,
// op.V)) and / or moved the clock by op.D2. The first element is judged against the state and clock
// the iteration started with, every later element against the state after that write at the later
// clock: an entry whose deadline has been reached by then must not be yielded any more (C03's
// "iterates over it"), every entry that was present before and is still visible must be (C15: a key
// whose value was only replaced is present for the whole traversal), unless the caller stopped early.
// For the rewritten key the traversal may show the new value or - weakly consistent - the replaced
// one as long as that one's own deadline has not been reached; a key the loop body inserted may or
// may not be shown.
func (s *seqState) cmpIterMid(op *Op, res *Result) {
	m := s.m
	props := P("C01", "C15")
	if op.Kind == "hottest" || op.Kind == "coldest" {
		props = P("C01", "C05")
	}
	nested := op.V != 0
	var oldE *mEntry
	after := m
	if nested {
		m.Probes["iterator-loop-body-wrote"]++
		if e := m.visible(op.K); e != nil {
			c := *e
			oldE = &c
		}
	}
	valKey := map[int]int{}
	for _, k := range sortedKeys(m.m) {
		valKey[m.m[k].V] = k
	}
	if nested {
		valKey[op.V] = op.K
	}
	keyOf := func(e EntryView) int {
		if op.Kind != "values" {
			return e.K
		}
		if k, ok := valKey[e.V]; ok {
			return k
		}
		return -1
	}
	leak := func(k int) []string {
		if k >= 0 && after.expiredUnswept(k) != nil {
			return withProp(props, "C03")
		}
		return props
	}
	first := res.Entries[0]
	fk := keyOf(first)
	if fk < 0 || m.visible(fk) == nil {
		m.fail(leak(fk), "iter."+op.Kind+"-extra", fk, "%s yielded %+v first, which the model does not hold", op.Kind, first)
	}
	if nested {
		// the write is committed to the model when its deletion event is matched (matchEvents); the
		// later elements are judged against a preview of the model after it
		s.pending = append(s.pending, &subOp{now: m.now, k: op.K, v: op.V, kind: "set"})
		clone := *m
		clone.m = map[int]*mEntry{}
		for k, e := range m.m {
			c := *e
			clone.m[k] = &c
		}
		clone.Probes, clone.viol = map[string]int{}, nil
		clone.write(op.K, op.V, "set")
		after = &clone
	}
	if op.D2 > 0 {
		m.Probes["iterator-clock-moved-mid-iteration"]++
	}
	m.now = satAdd(m.now, op.D2)
	after.now = m.now
	must := map[int]bool{}
	optional := map[int]bool{}
	for _, k := range after.visibleKeys() {
		if k == fk {
			continue
		}
		if nested && k == op.K && oldE == nil {
			optional[k] = true // inserted by the loop body
			continue
		}
		must[k] = true
	}
	oldStillValid := oldE != nil && (oldE.ExpNever || oldE.Exp > m.now)
	if nested && op.K != fk && oldStillValid && !must[op.K] {
		optional[op.K] = true // the new value is already expired, the replaced one is not: may be shown
	}
	seen := map[int]int{fk: 1}
	for _, e := range res.Entries[1:] {
		k := keyOf(e)
		seen[k]++
		if k < 0 || !(must[k] || optional[k]) || seen[k] > 1 {
			m.fail(leak(k), "iter."+op.Kind+"-extra", k, "%s yielded %+v (x%d) after the loop body had run (set %d:%d, clock +%d); the model does not hold it at that time", op.Kind, e, seen[k], op.K, op.V, op.D2)
			continue
		}
		if op.Kind == "all" || op.Kind == "values" {
			okV := after.visible(k) != nil && e.V == after.m[k].V
			if nested && k == op.K && oldStillValid && e.V == oldE.V {
				okV = true
			}
			if !okV {
				m.fail(leak(k), "iter."+op.Kind+"-value", k, "%s yielded %d=%d after the loop body had run, model %+v", op.Kind, k, e.V, after.m[k])
			}
		}
	}
	if op.D > 0 {
		lo, hi := 1+len(must), 1+len(must)+len(optional)
		if int(op.D) < lo {
			lo = int(op.D)
		}
		if int(op.D) < hi {
			hi = int(op.D)
		}
		if len(res.Entries) < lo || len(res.Entries) > hi {
			m.fail(props, "iter."+op.Kind+"-count", -1, "%s with early exit after %d and a loop body that ran after the first element yielded %d entries, expected %d..%d", op.Kind, op.D, len(res.Entries), lo, hi)
		}
		return
	}
	for _, k := range sortedKeys(must) {
		if seen[k] != 1 {
			m.fail(props, "iter."+op.Kind+"-missing", k, "%s yielded key %d %d times after the loop body had run (set %d:%d, clock +%d), the model holds it throughout", op.Kind, k, seen[k], op.K, op.V, op.D2)
		}
	}
}

func (s *seqState) cmpStats(res *Result) {
	m := s.m
	if !m.cfg.Stats {
		return
	}
	st := res.Stats
	amb := uint64(m.Probes["stats-ambiguous"])
	if st.Hits != m.hits {
		m.fail(P("C20"), "stats.hits", -1, "Hits=%d, tally %d", st.Hits, m.hits)
	}
	if st.Misses < m.misses || st.Misses > m.misses+amb {
		m.fail(P("C20"), "stats.misses", -1, "Misses=%d, tally %d (+%d ambiguous)", st.Misses, m.misses, amb)
	}
	if st.LoadSuccesses != m.loadOK || st.LoadFailures != m.loadFail {
		m.fail(P("C20"), "stats.loads", -1, "loads ok/fail=%d/%d, tally %d/%d", st.LoadSuccesses, st.LoadFailures, m.loadOK, m.loadFail)
	}
	if st.Evictions < m.evictLo || st.Evictions > m.evictions || st.EvictionWeight < m.evictWLo || st.EvictionWeight > m.evictWeight {
		m.fail(P("C20"), "stats.evictions", -1, "Evictions=%d weight=%d, tally overflow..overflow+expiration %d..%d weight %d..%d",
			st.Evictions, st.EvictionWeight, m.evictLo, m.evictions, m.evictWLo, m.evictWeight)
	}
}

// matchEvents processes the operation's atomic deletion events in order. An event either is the
// explicit consequence of one of the operation's sub-operations (the value it replaced / removed),
// or an automatic removal (Overflow / Expiration) of a value the model holds, which must be
// truthful. OnDeletion must mirror OnAtomicDeletion (same-goroutine executor).
func (s *seqState) matchEvents(op *Op, evs []Event) {
	m := s.m
	type key struct {
		k, v  int
		cause otter.DeletionCause
	}
	atomicSet := map[key]int{}
	asyncSet := map[key]int{}
	checkExplicit := func(ex *expEvent, ev Event) {
		if ev.Cause == otter.CauseExpiration && ex != nil {
			// an expired entry displaced by a write may or may not have been counted as an eviction
			// (it may equally have been swept just before): upper bound only
			m.evictions++
			m.evictWeight += uint64(m.cfg.weightOf(ex.v))
		}
		if ex == nil {
			m.fail(P("C06", "C01"), "event.unexpected", ev.K, "%s: deletion event key=%d value=%d cause=%s but nothing was replaced", op.Kind, ev.K, ev.V, causeStr(ev.Cause))
			return
		}
		if ex.v != ev.V {
			m.fail(P("C06", "C01"), "event.value", ev.K, "%s: deletion event for key %d reports value %d, the value that stopped being current is %d", op.Kind, ev.K, ev.V, ex.v)
		} else if ex.cause != ev.Cause {
			props := P("C06")
			if ex.cause == otter.CauseExpiration || ev.Cause == otter.CauseExpiration {
				props = P("C06", "C03")
			}
			m.fail(props, "event.cause", ev.K, "%s: value %d of key %d reported with cause %s, expected %s", op.Kind, ev.V, ev.K, causeStr(ev.Cause), causeStr(ex.cause))
		}
	}
	pendingWeight := func() uint64 {
		var w uint64
		for _, p := range s.pending {
			if !p.applied && !p.remove {
				w += uint64(m.cfg.weightOf(p.v))
			}
		}
		return w
	}
	automatic := func(ev Event) {
		me := m.m[ev.K]
		if me == nil || me.V != ev.V {
			m.fail(P("C06", "C01"), "event.unexpected", ev.K, "%s: deletion event key=%d value=%d cause=%s for a value the model does not hold", op.Kind, ev.K, ev.V, causeStr(ev.Cause))
			return
		}
		switch ev.Cause {
		case otter.CauseExpiration:
			m.Probes["auto-expiration"]++
			if me.ExpNever || me.Exp > m.now {
				m.fail(P("C07", "C12"), "event.untruthful-expiration", ev.K, "key %d value %d expired at clock %d but its deadline is %d", ev.K, ev.V, m.now, me.Exp)
			}
			m.evictions++
			m.evictWeight += uint64(me.W)
		case otter.CauseOverflow:
			m.Probes["auto-overflow"]++
			tot := m.physWeight() + pendingWeight()
			switch {
			case !m.cfg.bounded():
				m.fail(P("C07"), "event.overflow-unbounded", ev.K, "Overflow in a cache without a size bound")
			case me.W == 0:
				m.fail(P("C07", "C04"), "event.overflow-zero-weight", ev.K, "zero-weight entry key=%d evicted for size", ev.K)
			case tot <= m.max && uint64(me.W) <= m.max:
				m.fail(P("C07"), "event.untruthful-overflow", ev.K, "key %d evicted with total weight %d <= maximum %d", ev.K, tot, m.max)
			}
			m.evictions++
			m.evictWeight += uint64(me.W)
			m.evictLo++
			m.evictWLo += uint64(me.W)
		default:
			m.fail(withProp(P("C06", "C07"), s.opProps...), "event.unsanctioned-removal", ev.K, "%s: key %d value %d removed with cause %s without being asked", op.Kind, ev.K, ev.V, causeStr(ev.Cause))
		}
		delete(m.m, ev.K)
		// an automatic removal clears the key's in-flight load: results of loads of this key that
		// are still to be installed by this operation may legitimately be dropped
		for _, p := range s.pending {
			if !p.applied && p.k == ev.K && p.fromCall {
				p.mayDiscard = true
			}
		}
	}
	for _, ev := range evs {
		kk := key{ev.K, ev.V, ev.Cause}
		if !ev.Atomic {
			asyncSet[kk]++
			continue
		}
		atomicSet[kk]++
		pw := s.firstPending(ev.K)
		if pw != nil {
			cur := m.m[ev.K]
			if cur != nil && cur.V == ev.V {
				expired := m.visible(ev.K) == nil
				ambiguous := pw.fromCall && ev.Cause == otter.CauseExpiration && expired
				if !ambiguous && (ev.Cause == otter.CauseReplacement || ev.Cause == otter.CauseInvalidation || (ev.Cause == otter.CauseExpiration && expired)) {
					checkExplicit(s.applySub(pw), ev)
				} else {
					automatic(ev) // removed automatically before the sub-operation reached the key
				}
				continue
			}
			// the event reports a value that this operation itself installs (it is removed or
			// replaced again within the operation): bring the model up to that sub-operation first
			var target *subOp
			for _, p := range s.pending {
				if !p.applied && p.k == ev.K && !p.remove && p.v == ev.V {
					target = p
					break
				}
			}
			if target != nil {
				for _, q := range s.pending {
					if q == target {
						break
					}
					if q.applied || q.k != ev.K {
						continue
					}
					if q.mayDiscard {
						q.applied = true // its result was dropped: an installation would have been reported
						continue
					}
					if ex := s.applySub(q); ex != nil {
						m.fail(P("C06"), "event.missing", ex.k, "%s: value %d of key %d stopped being current but no atomic deletion event (%s) was delivered", op.Kind, ex.v, ex.k, causeStr(ex.cause))
					}
				}
				if ex := s.applySub(target); ex != nil {
					m.fail(P("C06"), "event.missing", ex.k, "%s: value %d of key %d stopped being current but no atomic deletion event (%s) was delivered", op.Kind, ex.v, ex.k, causeStr(ex.cause))
				}
				if nx := s.firstPending(ev.K); nx != nil && (ev.Cause == otter.CauseReplacement || ev.Cause == otter.CauseInvalidation) {
					checkExplicit(s.applySub(nx), ev)
				} else {
					automatic(ev)
				}
				continue
			}
		}
		automatic(ev)
	}
	for _, p := range s.pending {
		if p.applied {
			continue
		}
		if p.optional {
			p.applied = true
			continue
		}
		if p.mayDiscard {
			m.Probes["load-result-discarded-or-kept-after-eviction"]++
			// look at the table itself: the installed entry may already be past its own deadline
			// again when the operation ends (a later loader call of the same operation took time)
			kept := false
			for _, e := range otter.VerifRawEntries(s.r.C) {
				if e.Key == p.k && e.Value == p.v {
					kept = true
				}
			}
			if p.remove || !kept {
				p.applied = true
				continue
			}
		}
		if ex := s.applySub(p); ex != nil {
			m.fail(P("C06"), "event.missing", ex.k, "%s: value %d of key %d stopped being current but no atomic deletion event (%s) was delivered", op.Kind, ex.v, ex.k, causeStr(ex.cause))
		}
	}
	if m.cfg.Executor == "sync" {
		for kk, n := range atomicSet {
			if asyncSet[kk] != n {
				m.fail(P("C06"), "event.ondeletion-mismatch", kk.k, "%s: key %d value %d cause %s: %d atomic events but %d OnDeletion events", op.Kind, kk.k, kk.v, causeStr(kk.cause), n, asyncSet[kk])
			}
		}
		for kk, n := range asyncSet {
			if atomicSet[kk] != n {
				m.fail(P("C06"), "event.ondeletion-mismatch", kk.k, "%s: key %d value %d cause %s: %d OnDeletion events but %d atomic events", op.Kind, kk.k, kk.v, causeStr(kk.cause), n, atomicSet[kk])
			}
		}
	}
}

// checkSwept (C13): after CleanUp at T every entry whose deadline and whose write lie more than one
// tick before T must have been reported.
func (s *seqState) checkSwept() {
	m := s.m
	for _, k := range sortedKeys(m.m) {
		e := m.m[k]
		if e.ExpNever || e.Shortened {
			continue
		}
		if e.Exp < m.now-tickSlack && e.WrittenAt < m.now-tickSlack {
			m.fail(P("C13"), "sweep.not-swept", k, "after CleanUp at %d key %d (deadline %d, written %d) is still physically present / unreported", m.now, k, e.Exp, e.WrittenAt)
		}
	}
	m.Probes["sweep-checks"]++
}

// compareState: the whole observable state after each step.
func (s *seqState) compareState(keys int) {
	m, r := s.m, s.r
	check := func(k int) {
		e, ok := r.C.GetEntryQuietly(k)
		vis := m.visible(k)
		own := P("C01")
		if s.opKeys[k] {
			own = withProp(own, s.opProps...)
		}
		switch {
		case ok && vis == nil:
			props := own
			if m.expiredUnswept(k) != nil {
				props = withProp(own, "C03", "C12")
			}
			m.fail(props, "state.extra", k, "cache holds key %d value %d (exp %d) at clock %d; model does not (model entry %+v)", k, e.Value, e.ExpiresAtNano, m.now, m.m[k])
		case !ok && vis != nil:
			props := own
			if vis.ExpNever || vis.Exp-m.now > 0 {
				props = withProp(own, "C12")
			}
			m.fail(props, "state.missing", k, "model holds key %d value %d (deadline %d, never=%v) at clock %d; cache does not and reported no removal", k, vis.V, vis.Exp, vis.ExpNever, m.now)
		case ok:
			s.cmpEntry(own, "state.entry", k, *view(e), vis)
		}
	}
	for k := 0; k < keys; k++ {
		check(k)
	}
	for _, k := range sortedKeys(s.extraKey) {
		check(k)
	}
	for k := range s.flexExp {
		delete(s.flexExp, k)
	}
	for k := range s.flexRef {
		delete(s.flexRef, k)
	}
	for k := range s.refFree {
		delete(s.refFree, k)
	}
}

// SeqOutcome is the result of one sequential run.
type SeqOutcome struct {
	Infra    string // set when the harness could not set the run up: infrastructure trouble, not a verdict
	Viol     []Violation
	Steps    int
	Probes   map[string]int
	Faults   map[string]int
	SimSteps uint64
	SimTime  int64
	LogHash  uint64
	Fail     *simrt.Failure
	Audit    []string
}

// RunSeq executes a sequential case under the simulator (one task, StayStrategy).
// With gen != nil operations are generated online (looking at the model) and appended to sc.Ops, so
// the executed program is always an explicit list.
func RunSeq(seed uint64, sc *SeqCase, gen *OpGen, nops int, stopAtFirst bool) *SeqOutcome {
	var inFlight *Op // the operation being executed (names the property a hang belongs to)
	out := &SeqOutcome{}
	cfg := sc.Cfg
	w := simrt.Run(simrt.Config{Seed: seed, Parallelism: cfg.Parallelism, HashMode: cfg.HashMode, PoolMode: cfg.PoolMode, ClockOrigin: cfg.ClockOrigin, MaxSteps: 50_000_000}, func(w *simrt.World) {
		r := NewRunner(w, &cfg)
		m := NewModel(&cfg)
		if gen != nil && gen.P != nil {
			m.alsoProp = gen.P.AlsoProp
		}
		s := &seqState{m: m, r: r, flexExp: map[int][]int64{}, flexRef: map[int][]int64{}, refFree: map[int]bool{}, extraKey: map[int]bool{}}
		ctx := &taskCtx{id: 0, opIdx: -1}
		simrt.Cur().Tag = ctx
		if sc.Admission {
			otter.VerifPinRand(r.C)
		}
		if gen == nil {
			nops = len(sc.Ops)
		}
		for i := 0; i < nops; i++ {
			m.now = w.Now
			if gen != nil {
				sc.Ops = append(sc.Ops, gen.Next(m))
			}
			op := &sc.Ops[i]
			ctx.opIdx, ctx.opKind, ctx.op = i, op.Kind, op
			m.step = i
			m.now = w.Now
			for _, kk := range op.Ks {
				if kk >= cfg.Keys {
					s.extraKey[kk] = true
				}
			}
			if op.Load != nil {
				for _, kk := range op.Load.Extra {
					if kk >= cfg.Keys {
						s.extraKey[kk] = true
					}
				}
			}
			var admQ map[int]int
			var admW map[int]uint32
			var admSize uint64
			newKeyWrite := m.visible(op.K) == nil &&
				(op.Kind == "set" || op.Kind == "setifabsent" || (op.Kind == "compute" && op.Comp == "write") || (op.Kind == "computeifabsent" && op.Comp == "write"))
			admOn := sc.Admission && cfg.bounded() && (newKeyWrite || op.Kind == "setmax")
			if admOn {
				admQ = otter.VerifQueues(r.C)
				admW = map[int]uint32{}
				for _, k := range sortedKeys(admQ) {
					if e := m.m[k]; e != nil {
						admW[k] = e.W
					}
				}
				_, _, admSize = otter.VerifFrequency(r.C, op.K)
			}
			inFlight = op
			res := r.Exec(op)
			inFlight = nil
			if admOn {
				s.admissionCheck(op, newKeyWrite, admQ, admW, admSize)
			}
			if Trace {
				fmt.Printf("[%d] now=%d %s -> v=%d ok=%v err=%q panic=%v map=%v entry=%+v refresh=%v num=%d entries=%v\n", i, w.Now, op, res.V, res.Ok, res.Err, res.Panic, res.Map, res.Entry, res.Refresh, res.Num, res.Entries)
				for _, ev := range r.Events[s.evStart:] {
					fmt.Printf("      event atomic=%v k=%d v=%d cause=%s\n", ev.Atomic, ev.K, ev.V, ev.Cause)
				}
				for _, l := range r.Loads[s.ldStart:] {
					fmt.Printf("      load keys=%v reload=%v olds=%v ret=%v outcome=%s\n", l.Keys, l.Reload, l.Olds, l.Ret, l.Outcome)
				}
				fmt.Printf("      raw=%v\n", otter.VerifRawEntries(r.C))
				if a := otter.VerifAuditCache(r.C, w.Now); len(a.Problems) > 0 || a.InFlight > 0 {
					fmt.Printf("      audit inflight=%d drain=%d wbuf=%d %v\n", a.InFlight, a.DrainStatus, a.WriteBufferSize, a.Problems)
				}
			}
			s.applySeq(op, &res)
			w.Log(uint64(i)<<32 ^ uint64(res.V)<<1 ^ b2u(res.Ok))
			s.compareState(cfg.Keys)
			out.Steps++
			if len(m.viol) > 0 && stopAtFirst {
				break
			}
		}
		drainQueued := func() {
			r.RunQueued(-1, nil)
			evs := r.Events[s.evStart:]
			s.evStart = len(r.Events)
			s.pending = s.pending[:0]
			s.opProps, s.opKeys = nil, map[int]bool{}
			s.matchEvents(&Op{Kind: "runexec"}, evs)
		}
		held := sc.SaveLoad != nil && sc.SaveLoad.HoldExec
		if cfg.Executor == "queued" && !held {
			drainQueued()
		}
		if len(m.viol) == 0 && sc.SaveLoad != nil {
			s.saveLoad(w, sc)
		}
		if cfg.Executor == "queued" && held && len(m.viol) == 0 {
			drainQueued()
		}
		if len(m.viol) == 0 {
			// final: maintenance, then structural audit and derived views (C04/C05 in sequential form)
			// (C05 in sequential form: every alive table node is linked in exactly one queue and, with
			// expiry, in the timer wheel; nothing removed is still tracked; the counters agree)
			a := otter.VerifAuditCache(r.C, w.Now)
			for _, p := range a.Problems {
				out.Audit = append(out.Audit, p)
				m.fail(P("C05"), ruleOf(p), -1, "structural audit at the end of the sequential run: %s", p)
			}
			m.Probes["final-structural-audit"]++
		}
		if len(r.bgExecPanics) > 0 {
			for _, p := range r.bgExecPanics {
				if shortPanic(p) != "injected" {
					m.fail(P("C01", "C08"), "executor.panic", -1, "executor task panicked: %s", shortPanic(p))
				}
			}
		}
		out.Viol = m.viol
		out.Probes = m.Probes
		out.Faults = r.Faults
		out.SimTime = w.Now - cfg.ClockOrigin
		r.C.StopAllGoroutines()
	})
	out.SimSteps = w.Steps
	out.LogHash = w.LogHash
	out.Fail = w.Fail
	if w.Fail != nil && w.Fail.Kind == simrt.FailSetup {
		out.Infra = w.Fail.Detail
	} else if w.Fail != nil {
		props, detail := P("C01", "C08", "C14"), w.Fail.Detail
		if inFlight != nil {
			detail = fmt.Sprintf("during %s: %s", inFlight, detail)
			switch inFlight.Kind {
			case "refresh", "bulkrefresh":
				// the caller waits for the one result every manual refresh owes it
				props = append(props, "C11")
			case "load", "bulkget":
				props = append(props, "C10")
			}
		}
		out.Viol = append(out.Viol, Violation{Props: props, Rule: "sim." + string(w.Fail.Kind), Detail: detail, Step: out.Steps, Key: -1})
	}
	return out
}

func b2u(b bool) uint64 {
	if b {
		return 1
	}
	return 0
}

// Trace prints every step of a sequential run (replay debugging).
var Trace = os.Getenv("VERIF_TRACE") != ""

// admissionCheck (C18, cache level): "a new arrival displaces the policy's victim only if its
// estimate is strictly greater" (the random admission is pinned off). One operation (a write of a
// new key, or SetMaximum) ran one maintenance pass that evicted some entries for size. Arrivals are
// the entries that were in the admission window before the pass plus the written key; victims are
// evicted entries that were in the main region. Every comparison of the pass consumes one arrival:
// it either loses (and is evicted) or is admitted and displaces exactly one victim. Main-region
// entries are evicted without a comparison only after every arrival has been consumed. Hence at
// least D = min(#evicted victims, #arrivals - #evicted arrivals) of the evicted victims, the first D
// in event order, were displaced, each by its own arrival that had not been evicted before and
// whose estimate is strictly greater. The check looks for such an assignment (bipartite matching);
// none means some victim was displaced by a less or equally popular arrival. Passes in which the
// victim scan may have left the main-region part of the probation queue are skipped (see below).
func (s *seqState) admissionCheck(op *Op, newKeyWrite bool, qBefore map[int]int, wBefore map[int]uint32, sizeBefore uint64) {
	m, r := s.m, s.r
	var ov []Event
	for _, e := range r.Events[s.evStart:] {
		if !e.Atomic {
			continue
		}
		if e.Cause == otter.CauseExpiration {
			return
		}
		if e.Cause == otter.CauseOverflow {
			ov = append(ov, e)
		}
	}
	if len(ov) == 0 {
		return
	}
	_, enabled, sizeAfter := otter.VerifFrequency(r.C, op.K)
	if !enabled || sizeAfter < sizeBefore {
		return // tracking off, or an aging step ran during the operation
	}
	freq := func(k int) uint64 { f, _, _ := otter.VerifFrequency(r.C, k); return f }
	isArrival := func(k int) bool {
		if newKeyWrite && k == op.K {
			return true
		}
		q, ok := qBefore[k]
		return ok && q == 0
	}
	var arrivals []int
	for _, k := range sortedKeys(qBefore) {
		if qBefore[k] == 0 && wBefore[k] > 0 && !(newKeyWrite && k == op.K) {
			arrivals = append(arrivals, k)
		}
	}
	if newKeyWrite && m.cfg.weightOf(op.V) > 0 {
		arrivals = append(arrivals, op.K)
	}
	type vic struct {
		pos, k int
		f      uint64
	}
	var victims []vic
	lostAt := map[int]int{}
	for i, e := range ov {
		if isArrival(e.K) {
			if _, dup := lostAt[e.K]; !dup {
				lostAt[e.K] = i
			}
			continue
		}
		if q, ok := qBefore[e.K]; !ok || q == 0 {
			return // an entry the policy did not know before the operation: not this check's case
		}
		if m.cfg.weightOf(e.V) == 0 {
			continue // a pinned entry evicted for size is C04's / C07's finding
		}
		victims = append(victims, vic{i, e.K, freq(e.K)})
	}
	nLost := 0
	for _, k := range arrivals {
		if _, ok := lostAt[k]; ok {
			nLost++
		}
	}
	d := len(arrivals) - nLost
	if d > len(victims) {
		d = len(victims)
	}
	if d <= 0 {
		return
	}
	// The accounting below needs every evicted arrival to have lost as a candidate and every evicted
	// main-region entry to have been taken from the probation queue. Both follow if the victim
	// scan never got past the main-region part of probation, which is certain when a positive-weight
	// entry that was in probation before the pass is still there (the scan passes such an entry only
	// by evicting it; arrivals moved out of the window are appended behind it).
	qAfter := otter.VerifQueues(r.C)
	guard := false
	for _, k := range sortedKeys(qBefore) {
		if qBefore[k] == 1 && wBefore[k] > 0 {
			if q, ok := qAfter[k]; ok && q == 1 {
				guard = true
				break
			}
		}
	}
	if !guard {
		m.Probes["admission-pass-skipped-probation-exhausted"]++
		return
	}
	m.Probes["admission-decisions-checked"]++
	if d > 1 {
		m.Probes["admission-multi-displacement-passes"]++
	}
	// bipartite matching: displaced victim i -> arrival not lost before it with a greater estimate
	matchOf := map[int]int{} // arrival -> victim index
	var try func(i int, seen map[int]bool) bool
	try = func(i int, seen map[int]bool) bool {
		for _, c := range arrivals {
			if seen[c] {
				continue
			}
			if at, lost := lostAt[c]; lost && at < victims[i].pos {
				continue
			}
			if freq(c) <= victims[i].f {
				continue
			}
			seen[c] = true
			if j, taken := matchOf[c]; !taken || try(j, seen) {
				matchOf[c] = i
				return true
			}
		}
		return false
	}
	for i := 0; i < d; i++ {
		if !try(i, map[int]bool{}) {
			desc := ""
			for _, c := range arrivals {
				desc += fmt.Sprintf(" %d:%d", c, freq(c))
				if at, lost := lostAt[c]; lost {
					desc += fmt.Sprintf("(evicted #%d)", at)
				}
			}
			vd := ""
			for _, v := range victims[:d] {
				vd += fmt.Sprintf(" %d:%d(#%d)", v.k, v.f, v.pos)
			}
			m.fail(P("C18"), "admit.displaced-more-popular", victims[i].k,
				"%s: main-region entries evicted for size (key:estimate(event#))%s cannot each have been displaced by a distinct arrival with a strictly greater estimate; arrivals (key:estimate):%s",
				op, vd, desc)
			return
		}
	}
}
