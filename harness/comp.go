package zzverif

import (
	"fmt"
	"time"

	"verifsim/simrt"
)

// Component engines: internal/hashmap (C15), internal/deque/queue.MPSC (C16), internal/lossy (C17),
// sketch + policy.admit (C18) driven directly by simulated tasks under the same scheduler.

type COp struct {
	Kind string `json:"op"`
	K    int    `json:"k,omitempty"`
	V    int    `json:"v,omitempty"`
	N    int    `json:"n,omitempty"`
}

func (o COp) String() string { return fmt.Sprintf("%s k=%d v=%d n=%d", o.Kind, o.K, o.V, o.N) }

type CompCase struct {
	Kind        string   `json:"kind"` // hashmap | mpsc | lossy | sketch
	Parallelism int      `json:"par"`
	HashMode    int      `json:"hash,omitempty"`
	PoolMode    int      `json:"pool,omitempty"`
	Size        int      `json:"size,omitempty"`    // hashmap: size hint; lossy: max stripes
	Initial     int      `json:"initial,omitempty"` // mpsc initial capacity
	Max         int      `json:"max,omitempty"`     // mpsc max capacity
	Prefill     int      `json:"prefill,omitempty"`
	Stable      int      `json:"stable,omitempty"` // hashmap: how many of the prefilled keys are never touched again
	PreDelete   int      `json:"predelete,omitempty"`
	KeyKind     int      `json:"keykind,omitempty"` // sketch: 0 int, 1 string, 2 float64 (signed zeros), 3 struct
	Tasks       [][]COp  `json:"tasks"`
	Seeds       []uint64 `json:"seeds,omitempty"`
}

type CompOutcome struct {
	Viol       []Violation
	LogHash    uint64
	Steps      uint64
	Switches   uint64
	SwitchHash uint64
	Rec        []simrt.Deviation
	RecOver    bool
	Probes     map[string]int
	Points     map[string]int
	Strategy   string
	LinChecked int
	LinUnknown int
	NonTrivial bool
}

type compRun struct {
	w     *simrt.World
	cc    *CompCase
	viol  []Violation
	probe map[string]int
	out   *CompOutcome
	post  func() // analysis after the world has ended (porcupine uses real goroutines)
}

func (cr *compRun) fail(props []string, rule string, key int, format string, a ...any) {
	if len(cr.viol) < 20 {
		cr.viol = append(cr.viol, Violation{Props: props, Rule: rule, Detail: fmt.Sprintf(format, a...), Step: -1, Key: key})
	}
}

func RunComp(seed uint64, cc *CompCase, sched []simrt.Deviation, replay bool) *CompOutcome {
	return runComp(seed, cc, sched, replay, nil)
}

func runComp(seed uint64, cc *CompCase, sched []simrt.Deviation, replay bool, strat simrt.Strategy) *CompOutcome {
	out := &CompOutcome{Probes: map[string]int{}}
	cr := &compRun{cc: cc, probe: out.Probes, out: out}
	scfg := simrt.Config{Seed: seed, Parallelism: cc.Parallelism, HashMode: cc.HashMode, PoolMode: cc.PoolMode, MaxSteps: 6_000_000,
		Strat: strat, Replay: sched, ReplayMode: replay}
	prop := map[string]string{"hashmap": "C15", "mpsc": "C16", "lossy": "C17", "sketch": "C18"}[cc.Kind]
	w := simrt.Run(scfg, func(w *simrt.World) {
		cr.w = w
		switch cc.Kind {
		case "hashmap":
			cr.runHashmap()
		case "mpsc":
			cr.runMPSC()
		case "lossy":
			cr.runLossy()
		case "sketch":
			cr.runSketch()
		default:
			panic("unknown component " + cc.Kind)
		}
	})
	out.Steps, out.Switches, out.SwitchHash, out.LogHash = w.Steps, w.Switches, w.SwitchHash, w.LogHash
	out.Rec, out.RecOver = w.Rec, w.RecOverflow()
	out.Points = map[string]int{}
	for i, n := range w.PointsByKind {
		if n > 0 {
			out.Points[simrt.KindNames[i]] = int(n)
		}
	}
	out.Probes["pool-reuse"] += int(w.PoolHits)
	out.Probes["spin-forced-yield"] += int(w.SpinYields)
	out.Probes["task-stalled"] += int(w.Stalls)
	out.Probes["task-stalled-steps"] += int(w.StallSteps)
	if strat != nil {
		out.Strategy = strat.Name()
	}
	if w.Fail != nil && w.Fail.Kind == simrt.FailStepBudgetUnfair {
		out.Probes["inconclusive-step-budget-under-strategy"]++
	} else if w.Fail != nil {
		cr.fail(P(prop), "sim."+string(w.Fail.Kind), -1, "%s", w.Fail.Detail)
	} else if cr.post != nil {
		cr.post()
	}
	for _, p := range w.BgPanics {
		cr.fail(P(prop), "bg.panic", -1, "background task panicked: %s", shortPanic(p))
	}
	out.Viol = cr.viol
	return out
}

// compEngine generates and runs component cases.
type compEngine struct {
	kind string
	gen  func(rng *simrt.Rng) *CompCase
}

func (e *compEngine) Run(a *agg, spec *PropSpec, seed uint64) {
	rng := simrt.NewRng(seed, 30)
	cc := e.gen(&rng)
	srng := simrt.NewRng(seed, 31)
	if a.horizon < 100 {
		a.horizon = 1500
	}
	strat := simrt.DrawStrategy(&srng, uint64(a.horizon))
	out := runComp(seed, cc, nil, false, strat)
	a.st.Runs++
	if a.det {
		a.detLines = append(a.detLines, fmt.Sprintf("%d %016x %d %016x %d", seed, out.LogHash, out.Steps, out.SwitchHash, len(out.Viol)))
		return
	}
	a.horizon = (a.horizon*7 + float64(out.Steps)) / 8
	a.st.SimSteps += out.Steps
	a.st.Switches += out.Switches
	for _, t := range cc.Tasks {
		a.st.OpsExecuted += len(t)
	}
	mergeCounts(a.st.Probes, out.Probes)
	mergeCounts(a.st.Points, out.Points)
	a.st.Strategies[out.Strategy]++
	a.st.LinChecked += out.LinChecked
	a.st.LinUnknown += out.LinUnknown
	a.scheds[out.SwitchHash] = struct{}{}
	if out.NonTrivial {
		h := simrt.Mix(hashJSON(cc), out.SwitchHash)
		if _, dup := a.hashes[h]; !dup {
			a.hashes[h] = struct{}{}
			a.st.NonTrivial++
		}
	}
	if len(a.st.Samples) < 2 && (out.Switches > 3 || cc.Kind == "sketch") {
		var progs [][]string
		for _, t := range cc.Tasks {
			var ops []string
			for i, op := range t {
				if i >= 8 {
					ops = append(ops, "...")
					break
				}
				ops = append(ops, op.String())
			}
			progs = append(progs, ops)
		}
		nd := len(out.Rec)
		if nd > 12 {
			nd = 12
		}
		cp := *cc
		cp.Tasks = nil
		a.st.Samples = append(a.st.Samples, map[string]any{"engine": "comp/" + cc.Kind, "seed": seed, "case": cp, "tasks": progs, "strategy": out.Strategy,
			"scheduling_points": out.Steps, "context_switches": out.Switches, "first_deviations": out.Rec[:nd], "deviations": len(out.Rec)})
	}
	rel, foreign := relevant(out.Viol, spec.ID)
	mergeCounts(a.st.Foreign, foreign)
	if len(rel) == 0 {
		return
	}
	v := rel[0]
	if kd := a.knownMatch(v); kd != "" {
		if len(a.st.Known) < 20 {
			a.st.Known = append(a.st.Known, ViolationRec{Violation: v, Seed: seed, Known: kd})
		}
		return
	}
	if out.RecOver {
		a.st.InfraErrors = append(a.st.InfraErrors, fmt.Sprintf("seed %d: violation %s found but the deviation list overflowed", seed, v.Rule))
		return
	}
	rout := runComp(seed, cc, out.Rec, true, nil)
	if !hasRule(rout.Viol, spec.ID, v.Rule) {
		a.st.InfraErrors = append(a.st.InfraErrors, fmt.Sprintf("seed %d: violation %s (%s) did not reproduce under replay", seed, v.Rule, v.Detail))
		return
	}
	a.nviol++
	mcc, msched := minimizeComp(seed, cc, out.Rec, spec.ID, v.Rule, a.opts.MinimizeS)
	mout := runComp(seed, mcc, msched, true, nil)
	mv := v
	for _, x := range mout.Viol {
		if x.Rule == v.Rule && x.has(spec.ID) {
			mv = x
			break
		}
	}
	rp := &Replay{V: 1, Property: spec.ID, Engine: "comp", Seed: seed, Comp: mcc, Schedule: msched,
		Expect: ReplayExpect{Rule: mv.Rule, Key: mv.Key, Step: mv.Step, LogHash: fmt.Sprintf("%016x", mout.LogHash), Detail: mv.Detail},
		Note:   fmt.Sprintf("found with strategy %s; %d deviations before minimisation, %d after", out.Strategy, len(out.Rec), len(msched))}
	path := a.writeReplay(rp)
	a.st.Violations = append(a.st.Violations, ViolationRec{Violation: mv, Seed: seed, Replay: path})
}

func cloneComp(cc *CompCase) *CompCase {
	c := *cc
	c.Tasks = nil
	for _, t := range cc.Tasks {
		c.Tasks = append(c.Tasks, append([]COp(nil), t...))
	}
	return &c
}

func minimizeComp(seed uint64, cc *CompCase, sched []simrt.Deviation, prop, rule string, budgetS float64) (*CompCase, []simrt.Deviation) {
	if budgetS <= 0 {
		budgetS = 15
	}
	deadline := time.Now().Add(time.Duration(budgetS * float64(time.Second)))
	fails := func(c *CompCase, s []simrt.Deviation) bool {
		out := runComp(seed, c, s, true, nil)
		return hasRule(out.Viol, prop, rule)
	}
	cur := cloneComp(cc)
	cs := append([]simrt.Deviation(nil), sched...)
	if !fails(cur, cs) {
		return cc, sched
	}
	cs = ddminSlice(cs, deadline, func(s []simrt.Deviation) bool { return fails(cur, s) })
	for round := 0; round < 2; round++ {
		for ti := range cur.Tasks {
			ti := ti
			cur.Tasks[ti] = ddminSlice(cur.Tasks[ti], deadline, func(ops []COp) bool {
				c := cloneComp(cur)
				c.Tasks[ti] = ops
				return fails(c, cs)
			})
		}
		cs = ddminSlice(cs, deadline, func(s []simrt.Deviation) bool { return fails(cur, s) })
	}
	for cur.Prefill > 0 && time.Now().Before(deadline) {
		c := cloneComp(cur)
		c.Prefill = cur.Prefill / 2
		if !fails(c, cs) {
			break
		}
		cur = c
	}
	return cur, cs
}
