package zzverif

import (
	"encoding/binary"
	"encoding/json"
	"fmt"
	"os"
	"path/filepath"
	"sort"
	"strconv"
	"time"

	"verifsim/simrt"
)

// Replay is the self-contained replay file.
type Replay struct {
	V        int               `json:"v"`
	Property string            `json:"property"`
	Engine   string            `json:"engine"`
	Seed     uint64            `json:"seed"`
	Seq      *SeqCase          `json:"seq,omitempty"`
	Conc     *ConcCase         `json:"conc,omitempty"`
	Comp     *CompCase         `json:"comp,omitempty"`
	Schedule []simrt.Deviation `json:"schedule,omitempty"`
	Expect   ReplayExpect      `json:"expect"`
	Note     string            `json:"note,omitempty"`
}

type ReplayExpect struct {
	Rule    string `json:"rule"`
	Key     int    `json:"key"`
	Step    int    `json:"step"`
	LogHash string `json:"log_hash"`
	Detail  string `json:"detail"`
}

// WorkerStats is what one worker process reports.
type WorkerStats struct {
	Property     string         `json:"property"`
	Worker       int            `json:"worker"`
	Runs         int            `json:"runs"`
	NonTrivial   int            `json:"nontrivial"`
	OpsExecuted  int            `json:"ops_executed"`
	SimSteps     uint64         `json:"sim_steps"`
	Switches     uint64         `json:"switches"`
	SimTimeNs    float64        `json:"sim_time_ns"`
	WallS        float64        `json:"wall_s"`
	Probes       map[string]int `json:"probes"`
	Faults       map[string]int `json:"faults"`
	Strategies   map[string]int `json:"strategies"`
	Points       map[string]int `json:"points_by_kind"`
	Samples      []any          `json:"samples"`
	Violations   []ViolationRec `json:"violations"`
	Known        []ViolationRec `json:"known"`
	Foreign      map[string]int `json:"foreign_violations"`
	LinUnknown   int            `json:"lin_unknown"`
	LinChecked   int            `json:"lin_checked"`
	InfraErrors  []string       `json:"infra_errors"`
	DistinctHash int            `json:"distinct_hashes"`
	SchedHashes  int            `json:"distinct_schedules"`
}

type ViolationRec struct {
	Violation
	Seed   uint64 `json:"seed"`
	Replay string `json:"replay"`
	Known  string `json:"known,omitempty"`
}

// KnownFinding is one entry of /verif/known_findings.json.
type KnownFinding struct {
	Property string `json:"property"`
	Rule     string `json:"rule"`            // oracle rule id
	Match    string `json:"match,omitempty"` // substring that must occur in the violation detail
	Desc     string `json:"description"`
	Status   string `json:"status"` // "open" suppresses; "fixed" suppresses nothing
}

type WorkerOpts struct {
	Prop      string
	Tier      string
	Seed      uint64
	Worker    int
	NWorkers  int
	Budget    time.Duration
	OutDir    string
	ReplayDir string
	Known     []KnownFinding
	MaxViol   int
	Spec      string
	MinimizeS float64
}

type agg struct {
	st       WorkerStats
	hashes   map[uint64]struct{}
	scheds   map[uint64]struct{}
	opts     *WorkerOpts
	start    time.Time
	nviol    int
	horizon  float64
	det      bool
	detLines []string
}

func newAgg(o *WorkerOpts) *agg {
	return &agg{opts: o, start: time.Now(), hashes: map[uint64]struct{}{}, scheds: map[uint64]struct{}{},
		st: WorkerStats{Property: o.Prop, Worker: o.Worker, Probes: map[string]int{}, Faults: map[string]int{}, Strategies: map[string]int{}, Points: map[string]int{}, Foreign: map[string]int{}}}
}

func (a *agg) expired() bool { return time.Since(a.start) > a.opts.Budget }

func mergeCounts(dst, src map[string]int) {
	for k, v := range src {
		dst[k] += v
	}
}

func hashJSON(v any) uint64 {
	b, _ := json.Marshal(v)
	return simrt.HashString(string(b))
}

// knownMatch returns the description of the open known finding a violation matches, or "".
func (a *agg) knownMatch(v Violation) string {
	for _, k := range a.opts.Known {
		if k.Status != "open" || k.Property != a.opts.Prop || k.Rule != v.Rule {
			continue
		}
		if k.Match == "" || indexOf(v.Detail, k.Match) >= 0 {
			return k.Desc
		}
	}
	return ""
}

func (a *agg) writeReplay(rp *Replay) string {
	os.MkdirAll(a.opts.ReplayDir, 0o755)
	name := fmt.Sprintf("%s-%d-w%d-%d.json", rp.Property, rp.Seed, a.opts.Worker, a.nviol)
	path := filepath.Join(a.opts.ReplayDir, name)
	b, _ := json.MarshalIndent(rp, "", " ")
	os.WriteFile(path, b, 0o644)
	return path
}

func (a *agg) finish() {
	a.st.WallS = time.Since(a.start).Seconds()
	a.st.DistinctHash = len(a.hashes)
	a.st.SchedHashes = len(a.scheds)
	os.MkdirAll(a.opts.OutDir, 0o755)
	b, _ := json.Marshal(a.st)
	os.WriteFile(filepath.Join(a.opts.OutDir, fmt.Sprintf("w%d.json", a.opts.Worker)), b, 0o644)
	hs := make([]uint64, 0, len(a.hashes))
	for h := range a.hashes {
		hs = append(hs, h)
	}
	sort.Slice(hs, func(i, j int) bool { return hs[i] < hs[j] })
	buf := make([]byte, 8*len(hs))
	for i, h := range hs {
		binary.LittleEndian.PutUint64(buf[8*i:], h)
	}
	os.WriteFile(filepath.Join(a.opts.OutDir, fmt.Sprintf("w%d.hashes", a.opts.Worker)), buf, 0o644)
}

// MergeHashes counts distinct 64-bit hashes across worker hash files.
func MergeHashes(files []string) int {
	seen := map[uint64]struct{}{}
	for _, f := range files {
		b, err := os.ReadFile(f)
		if err != nil {
			continue
		}
		for i := 0; i+8 <= len(b); i += 8 {
			seen[binary.LittleEndian.Uint64(b[i:])] = struct{}{}
		}
	}
	return len(seen)
}

// pick the violations that belong to the property under check.
func relevant(vs []Violation, prop string) (rel []Violation, foreign map[string]int) {
	foreign = map[string]int{}
	for _, v := range vs {
		if v.has(prop) {
			rel = append(rel, v)
		} else {
			foreign[v.Rule]++
		}
	}
	return
}

// RunWorker is the entry point of a worker process.
func RunWorker(o *WorkerOpts) *WorkerStats {
	specID := o.Prop
	if o.Spec != "" {
		specID = o.Spec
	}
	spec, ok := Props[specID]
	if ok && o.Spec != "" {
		// development aid: run another property's engines but report this property's rules
		cp := *spec
		cp.ID = o.Prop
		spec = &cp
	}
	if !ok {
		fmt.Fprintf(os.Stderr, "unknown property %s\n", o.Prop)
		os.Exit(2)
	}
	if o.MaxViol == 0 {
		o.MaxViol = 2
	}
	if e := os.Getenv("VERIF_MAXVIOL"); e != "" {
		// development aid (detection-rate experiments): keep searching after a violation, do not minimise
		if n, err := strconv.Atoi(e); err == nil && n > 0 {
			o.MaxViol, o.MinimizeS = n, 0.001
		}
	}
	if e := os.Getenv("VERIF_ENGINE"); e != "" {
		// development aid: run only the n-th engine of the property
		if i, err := strconv.Atoi(e); err == nil && i >= 0 && i < len(spec.Engines) {
			cp := *spec
			cp.Engines = []Engine{spec.Engines[i]}
			spec = &cp
		}
	}
	a := newAgg(o)
	go a.hangWatchdog()
	iter := uint64(0)
	for !a.expired() && a.nviol < o.MaxViol {
		for _, eng := range spec.Engines {
			if a.expired() || a.nviol >= o.MaxViol {
				break
			}
			seed := simrt.Mix(simrt.Mix(o.Seed, uint64(o.Worker)+1000*uint64(o.NWorkers)), iter)
			eng.Run(a, spec, seed)
		}
		iter++
	}
	a.finish()
	return &a.st
}

// hangWatchdog (real time, outside every simulation): the code under test can spin between two
// scheduling points (a corrupted list walked for ever), where the simulator has no say and no step
// budget applies. If no simulated execution has started for hangLimit, the statistics collected so
// far (including violations already confirmed by re-execution) are written and the process exits
// with status 3. The orchestrator treats that as infrastructure trouble - never as a verdict - but
// still reports the confirmed violations of this and the other workers.
const hangLimit = 75 * time.Second

func (a *agg) hangWatchdog() {
	last, since := simrt.RunsStarted.Load(), time.Now()
	for {
		time.Sleep(time.Second)
		if n := simrt.RunsStarted.Load(); n != last {
			last, since = n, time.Now()
			continue
		}
		if time.Since(since) > hangLimit {
			a.st.InfraErrors = append(a.st.InfraErrors, fmt.Sprintf("worker %d: a simulated execution made no progress for %v of wall-clock time (code spinning between two scheduling points?)", a.opts.Worker, hangLimit))
			a.finish()
			fmt.Fprintf(os.Stderr, "worker %d: hang watchdog fired\n", a.opts.Worker)
			os.Exit(3)
		}
	}
}

// DetRun runs n seeds of a property once each (in order, or reversed) and returns one line per run:
// seed, event-log hash, scheduling points, context-switch hash, violations. The determinism
// self-test diffs these lines across processes, batch positions and GOMAXPROCS values.
func DetRun(prop string, base uint64, n int, reverse bool) []string {
	spec := Props[prop]
	o := &WorkerOpts{Prop: prop, Budget: time.Hour, MaxViol: 1 << 30, MinimizeS: 0.001, ReplayDir: os.TempDir()}
	a := newAgg(o)
	a.det = true
	idx := make([]int, n)
	for i := range idx {
		idx[i] = i
		if reverse {
			idx[i] = n - 1 - i
		}
	}
	for _, i := range idx {
		for _, eng := range spec.Engines {
			eng.Run(a, spec, simrt.Mix(base, uint64(i)))
		}
	}
	sort.Strings(a.detLines)
	return a.detLines
}

// ReplayFile re-executes a replay file; returns the violations it reproduces for its property.
func ReplayFile(path string) (*Replay, []Violation, string, error) {
	b, err := os.ReadFile(path)
	if err != nil {
		return nil, nil, "", err
	}
	var rp Replay
	if err := json.Unmarshal(b, &rp); err != nil {
		return nil, nil, "", err
	}
	var viol []Violation
	var hash uint64
	switch rp.Engine {
	case "seq":
		out := RunSeq(rp.Seed, rp.Seq, nil, 0, false)
		viol, hash = out.Viol, out.LogHash
	case "conc":
		out := RunConc(rp.Seed, rp.Conc, rp.Schedule, true, Props[rp.Property])
		viol, hash = out.Viol, out.LogHash
	case "comp":
		out := RunComp(rp.Seed, rp.Comp, rp.Schedule, true)
		viol, hash = out.Viol, out.LogHash
	default:
		return &rp, nil, "", fmt.Errorf("unknown engine %q", rp.Engine)
	}
	rel, _ := relevant(viol, rp.Property)
	return &rp, rel, fmt.Sprintf("%016x", hash), nil
}
