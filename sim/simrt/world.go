// Package simrt is the deterministic cooperative scheduler under which instrumented otter code runs.
//
// Exactly one simulated task holds the baton at any time; every shim operation (sync, atomic, channel,
// clock) calls Point, where the schedule decides whether to hand the baton to another task. With W == nil
// every shim passes through to the real primitive.
package simrt

import (
	"fmt"
	"runtime"
	"sync"
	"sync/atomic"
	"unsafe"
)

// W is the process-global world. nil means pass-through (no simulation).
var W *World

// Kind classifies scheduling points.
type Kind uint8

const (
	KLoad Kind = iota
	KStore
	KRMW
	KLock
	KUnlock
	KChan
	KClock
	KYield
	KSpawn
	KWait
	KCallback
	kindCount
)

var KindNames = [...]string{"load", "store", "rmw", "lock", "unlock", "chan", "clock", "yield", "spawn", "wait", "callback"}

type taskState uint8

const (
	stRunnable taskState = iota
	stBlocked
	stQuiesce // runnable only when nothing else is
	stDone
)

// Task is one simulated goroutine.
type Task struct {
	ID          int
	Name        string
	w           *World
	wake        chan struct{}
	state       taskState
	blockKind   string
	blockObj    unsafe.Pointer
	points      uint64
	loadStreak  int
	prio        int64
	joiners     []*Task
	PanicVal    any
	Panicked    bool
	signaled    bool // for cond / generic wake
	Tag         any
	Background  bool // spawned by instrumented code via `go`
	unlockHooks []func()
	FinishSeq   uint64
	held        []heldLock
	opKind      uint64 // op-relative scheduling sites (OpSites strategy)
	opBase      uint64
}

type heldLock struct {
	addr unsafe.Pointer
	seq  uint64
}

// FailureKind enumerates simulator-detected failures.
type FailureKind string

const (
	FailDeadlock   FailureKind = "deadlock"
	FailStepBudget FailureKind = "step-budget"
	// FailStepBudgetUnfair: the budget ran out while a strategy (not the fair phase) was deciding.
	// A strategy may starve a task for a long time, so this is inconclusive, not a liveness verdict.
	FailStepBudgetUnfair FailureKind = "step-budget-unfair"
	FailHarness          FailureKind = "harness"
	FailSetup            FailureKind = "setup" // the harness could not set the run up (never a verdict)
)

type Failure struct {
	Kind   FailureKind
	Detail string
	Step   uint64
}

// Deviation is one recorded scheduling decision that differs from the default rule
// (stay on the current task; when it cannot continue run the lowest-numbered runnable task).
type Deviation struct {
	Task  int    `json:"t"`
	Point uint64 `json:"p"` // the task's n-th scheduling point
	To    int    `json:"to"`
}

type World struct {
	OnProbe            func(name string, arg any)
	watchAddr          unsafe.Pointer
	watchAcq, watchRel func()
	tasks              []*Task
	active             []*Task
	cur                *Task
	Steps              uint64
	Switches           uint64
	evseq              uint64
	MaxSteps           uint64
	aborted            bool
	Fail               *Failure
	doneCh             chan struct{}
	doneOnce           sync.Once
	wg                 sync.WaitGroup

	waiters map[unsafe.Pointer][]*Task
	chans   map[unsafe.Pointer]*chanState
	pools   map[unsafe.Pointer]*poolState
	condGen map[unsafe.Pointer]uint64

	// schedule
	Strat      Strategy
	replay     map[uint64]int32
	replaying  bool
	Rec        []Deviation
	recLimit   int
	fair       bool
	stall      *Task  // stalled-task fault: not scheduled while anything else can run (generation mode only)
	stallUntil uint64 // ... until this many steps have passed
	Stalls     uint64
	StallSteps uint64
	fairCount  int
	fairStart  uint64
	FairBudget uint64
	nopreempt  int

	// clock
	Now int64

	// rng streams
	Seed     uint64
	schedRng Rng
	FastRng  Rng
	PoolRng  Rng
	HashSeq  uint64
	SelRng   Rng

	// knobs read by shims
	Parallelism int
	HashMode    int // 0 random, 1 collide (few buckets)
	PoolMode    int // 0 random, 1 always-new, 2 always-reuse

	OnIdle func() bool

	// stats
	PointsByKind [kindCount]uint64
	SpinYields   uint64
	SwitchHash   uint64
	LogHash      uint64
	BgPanics     []any
	PoolHits     uint64
	PoolMisses   uint64
}

// RunsStarted counts simulated executions of this process (a heartbeat for the worker's wall-clock
// watchdog; never read by anything that influences a run).
var RunsStarted atomic.Uint64

type abortSignal struct{}

// Config for a run.
type Config struct {
	Seed        uint64
	MaxSteps    uint64
	Strat       Strategy
	Replay      []Deviation // non-nil => replay mode
	ReplayMode  bool
	Parallelism int
	HashMode    int
	PoolMode    int
	ClockOrigin int64
	RecLimit    int
}

// Run executes main as task 0 under a fresh world and returns the world after every task goroutine has exited.
func Run(cfg Config, main func(w *World)) *World {
	if W != nil {
		panic("simrt: nested Run")
	}
	RunsStarted.Add(1)
	w := &World{
		MaxSteps:    cfg.MaxSteps,
		doneCh:      make(chan struct{}),
		waiters:     map[unsafe.Pointer][]*Task{},
		chans:       map[unsafe.Pointer]*chanState{},
		pools:       map[unsafe.Pointer]*poolState{},
		condGen:     map[unsafe.Pointer]uint64{},
		Strat:       cfg.Strat,
		Seed:        cfg.Seed,
		Parallelism: cfg.Parallelism,
		HashMode:    cfg.HashMode,
		PoolMode:    cfg.PoolMode,
		Now:         cfg.ClockOrigin,
		recLimit:    cfg.RecLimit,
	}
	if w.MaxSteps == 0 {
		w.MaxSteps = 5_000_000
	}
	if w.Parallelism <= 0 {
		w.Parallelism = 4
	}
	if w.recLimit == 0 {
		w.recLimit = 1 << 16
	}
	w.schedRng = NewRng(cfg.Seed, 1)
	w.FastRng = NewRng(cfg.Seed, 2)
	w.PoolRng = NewRng(cfg.Seed, 3)
	w.SelRng = NewRng(cfg.Seed, 4)
	w.HashSeq = Mix(cfg.Seed, 5)
	if cfg.ReplayMode {
		w.replaying = true
		w.replay = make(map[uint64]int32, len(cfg.Replay))
		for _, d := range cfg.Replay {
			w.replay[devKey(d.Task, d.Point)] = int32(d.To)
		}
	}
	if w.Strat == nil {
		w.Strat = &StayStrategy{}
	}
	w.Strat.Init(w)
	W = w
	t0 := w.newTask("main", func() { main(w) })
	w.cur = t0
	t0.wake <- struct{}{}
	<-w.doneCh
	// teardown: every task other than the one that ended the run is parked on its wake channel.
	w.aborted = true
	for _, t := range w.tasks {
		if t.state != stDone {
			select {
			case t.wake <- struct{}{}:
			default:
			}
		}
	}
	w.wg.Wait()
	W = nil
	return w
}

func devKey(task int, point uint64) uint64 { return uint64(task)<<44 | (point & (1<<44 - 1)) }

func (w *World) newTask(name string, fn func()) *Task {
	t := &Task{ID: len(w.tasks), Name: name, w: w, wake: make(chan struct{}, 1)}
	w.tasks = append(w.tasks, t)
	w.active = append(w.active, t)
	w.Strat.OnSpawn(w, t)
	w.wg.Add(1)
	go func() {
		defer w.wg.Done()
		<-t.wake
		if w.aborted {
			return
		}
		defer func() {
			r := recover()
			if w.aborted {
				return
			}
			if r != nil {
				t.PanicVal = r
				t.Panicked = true
				if t.Background {
					w.BgPanics = append(w.BgPanics, r)
				} else {
					w.Fail = &Failure{Kind: FailHarness, Detail: fmt.Sprintf("task %s panicked: %v\n%s", t.Name, r, stack()), Step: w.Steps}
					w.end()
					return
				}
			}
			w.finish(t)
		}()
		fn()
	}()
	return t
}

func stack() string {
	b := make([]byte, 8192)
	n := runtime.Stack(b, false)
	return string(b[:n])
}

// end terminates the run (called by the goroutine holding the baton).
func (w *World) end() {
	w.aborted = true
	w.doneOnce.Do(func() { close(w.doneCh) })
}

// abort ends the run from inside a task and never returns.
func (w *World) abort(f *Failure) {
	if w.Fail == nil {
		w.Fail = f
	}
	w.end()
	runtime.Goexit()
}

// AbortSetup stops the run because the harness could not set it up (e.g. the cache constructor
// rejected the harness's internal tuning knobs): infrastructure trouble, never a verdict.
func (w *World) AbortSetup(detail string) {
	w.abort(&Failure{Kind: FailSetup, Detail: detail, Step: w.Steps})
}

// Abort lets the harness stop the run with a failure.
func (w *World) Abort(detail string) {
	w.abort(&Failure{Kind: FailHarness, Detail: detail, Step: w.Steps})
}

func (w *World) finish(t *Task) {
	t.state = stDone
	t.FinishSeq = w.Tick()
	t.points++
	for i, a := range w.active {
		if a == t {
			w.active = append(w.active[:i], w.active[i+1:]...)
			break
		}
	}
	for _, j := range t.joiners {
		if j.state == stBlocked {
			j.state = stRunnable
		}
	}
	t.joiners = nil
	if t.ID == 0 {
		w.end()
		return
	}
	next := w.pick(t, true)
	for next == nil && w.OnIdle != nil {
		w.nopreempt++
		ok := w.OnIdle()
		w.nopreempt--
		if !ok {
			break
		}
		next = w.pick(t, true)
	}
	if next == nil {
		// nothing can run: deadlock among the remaining tasks
		w.Fail = &Failure{Kind: FailDeadlock, Detail: w.describeBlocked(), Step: w.Steps}
		w.end()
		return
	}
	w.cur = next
	w.Switches++
	next.wake <- struct{}{}
}

// Cur returns the running task (nil outside simulation).
func Cur() *Task {
	if W == nil {
		return nil
	}
	return W.cur
}

func (w *World) Cur() *Task { return w.cur }

// Tick returns a fresh, strictly increasing event sequence number (the logical clock for histories).
func (w *World) Tick() uint64 {
	w.evseq++
	return w.evseq
}

// Point is a scheduling point. Shims call it before performing the real operation.
func Point(k Kind) {
	w := W
	if w == nil {
		return
	}
	w.point(k)
}

func (w *World) point(k Kind) {
	if w.aborted {
		runtime.Goexit()
	}
	t := w.cur
	w.Steps++
	t.points++
	w.PointsByKind[k]++
	if w.Steps > w.MaxSteps {
		w.budgetExceeded()
	}
	if w.nopreempt > 0 {
		return
	}
	if w.stall != nil {
		w.StallSteps++
		if w.Steps >= w.stallUntil || w.stall.state == stDone || w.stall == t {
			w.stall = nil
		}
	}
	if k == KLoad {
		t.loadStreak++
		if t.loadStreak >= 48 && t.loadStreak%16 == 0 {
			// probable spin: deterministic forced yield
			n, decided := w.yieldTarget(t)
			if n != nil && n != t {
				w.SpinYields++
				w.Strat.OnSpin(w, t)
				w.handoff(t, n)
				return
			}
			if decided {
				return // a recorded decision to stay (the only alternative was stalled)
			}
		}
	} else {
		t.loadStreak = 0
	}
	if w.fair {
		w.fairCount++
		if w.fairCount >= 40 {
			w.fairCount = 0
			if n := w.nextRoundRobin(t); n != nil && n != t {
				w.handoff(t, n)
			}
		}
		return
	}
	next := w.pick(t, false)
	if next != t && next != nil {
		w.handoff(t, next)
	}
}

// Yield forces a switch to another runnable task if there is one (runtime.Gosched).
func Yield() {
	w := W
	if w == nil {
		runtime.Gosched()
		return
	}
	if w.aborted {
		runtime.Goexit()
	}
	t := w.cur
	w.Steps++
	t.points++
	w.PointsByKind[KYield]++
	if w.Steps > w.MaxSteps {
		w.budgetExceeded()
	}
	if n, _ := w.yieldTarget(t); n != nil && n != t {
		w.handoff(t, n)
	}
}

// yieldTarget: who runs after a forced yield (spin detection, runtime.Gosched) of t. The default is
// the next runnable task in round-robin order - a deterministic rule, so it is not part of the
// recorded schedule. With a stalled task (a fault that only exists while a run is generated) the
// stalled task is skipped; that is a decision of the schedule and is recorded as a deviation at this
// point (target t itself = "stay"), which replay looks up here. decided reports that the schedule,
// not the default rule, chose.
func (w *World) yieldTarget(t *Task) (n *Task, decided bool) {
	def := w.nextRoundRobin(t)
	if w.fair {
		return def, false
	}
	if w.replaying {
		if to, ok := w.replay[devKey(t.ID, t.points)]; ok && int(to) < len(w.tasks) {
			if int(to) == t.ID {
				return t, true
			}
			if c := w.tasks[to]; c.state == stRunnable {
				return c, true
			}
		}
		return def, false
	}
	if w.stall == nil || def != w.stall {
		return def, false
	}
	var first, after *Task
	for _, a := range w.active {
		if a.state != stRunnable || a == t || a == w.stall {
			continue
		}
		if first == nil || a.ID < first.ID {
			first = a
		}
		if a.ID > t.ID && (after == nil || a.ID < after.ID) {
			after = a
		}
	}
	alt := after
	if alt == nil {
		alt = first
	}
	if alt == nil {
		alt = t
	}
	w.record(t, alt)
	return alt, true
}

// BeginStall (strategies): the current task t is not scheduled for the next steps points while any
// other task can run - a slow or descheduled goroutine. Returns false if nothing else is runnable.
func (w *World) BeginStall(t *Task, steps uint64) bool {
	if w.replaying || w.fair || w.stall != nil {
		return false
	}
	other := false
	for _, a := range w.active {
		if a.state == stRunnable && a != t {
			other = true
		}
	}
	if !other {
		return false
	}
	w.stall, w.stallUntil = t, w.Steps+steps
	w.Stalls++
	w.Strat.OnSpin(w, t) // priority strategies: everybody else goes first
	return true
}

// budgetExceeded: in the fair phase (round-robin, no faults) running out of steps is a liveness
// violation; while a strategy is deciding it only means the strategy starved somebody.
func (w *World) budgetExceeded() {
	kind := FailStepBudgetUnfair
	if w.fair && w.Steps-w.fairStart > w.FairBudget {
		kind = FailStepBudget
	} else if w.fair {
		return
	}
	w.abort(&Failure{Kind: kind, Detail: fmt.Sprintf("exceeded the step budget (%d points, %d in the fair phase); tasks: %s", w.Steps, w.Steps-w.fairStart, w.describeBlocked()), Step: w.Steps})
}

func (w *World) nextRoundRobin(t *Task) *Task {
	var first, after *Task
	for _, a := range w.active {
		if a.state != stRunnable || a == t {
			continue
		}
		if first == nil || a.ID < first.ID {
			first = a
		}
		if a.ID > t.ID && (after == nil || a.ID < after.ID) {
			after = a
		}
	}
	if after != nil {
		return after
	}
	return first
}

func (w *World) handoff(from, to *Task) {
	w.cur = to
	w.Switches++
	w.SwitchHash = Mix(w.SwitchHash, uint64(from.ID)<<40^uint64(to.ID)<<20^from.points)
	to.wake <- struct{}{}
	<-from.wake
	if w.aborted {
		runtime.Goexit()
	}
}

// pick chooses who runs next. mustSwitch: the current task cannot continue (blocked / finished).
func (w *World) pick(t *Task, mustSwitch bool) *Task {
	if w.fair {
		if !mustSwitch {
			return t
		}
		n := w.nextRoundRobin(t)
		if n == nil {
			n = w.lowestQuiesce()
		}
		return n
	}
	if w.replaying {
		if to, ok := w.replay[devKey(t.ID, t.points)]; ok {
			if int(to) < len(w.tasks) {
				c := w.tasks[to]
				if c.state == stRunnable && c != t {
					return c
				}
			}
		}
		if !mustSwitch {
			return t
		}
		return w.defaultNext(t)
	}
	var choice *Task
	if mustSwitch {
		choice = w.Strat.PickBlocked(w, t)
		if choice == nil {
			choice = w.lowestQuiesce()
			return choice
		}
		if def := w.defaultNext(t); def != choice {
			w.record(t, choice)
		}
		return choice
	}
	choice = w.Strat.PickPoint(w, t)
	if choice == nil || choice == t || (choice == w.stall && w.stall != nil) {
		return t
	}
	w.record(t, choice)
	return choice
}

func (w *World) record(t, to *Task) {
	if len(w.Rec) < w.recLimit {
		w.Rec = append(w.Rec, Deviation{Task: t.ID, Point: t.points, To: to.ID})
	}
}

// RecOverflow reports whether the deviation list was truncated (replay would then be inexact).
func (w *World) RecOverflow() bool { return len(w.Rec) >= w.recLimit }

func (w *World) defaultNext(t *Task) *Task {
	var best *Task
	for _, a := range w.active {
		if a.state == stRunnable && a != t && (best == nil || a.ID < best.ID) {
			best = a
		}
	}
	if best == nil {
		best = w.lowestQuiesce()
	}
	return best
}

func (w *World) lowestQuiesce() *Task {
	var best *Task
	for _, a := range w.active {
		if a.state == stQuiesce && (best == nil || a.ID < best.ID) {
			best = a
		}
	}
	if best != nil {
		best.state = stRunnable
	}
	return best
}

// Runnable returns the runnable tasks other than t in id order (for strategies).
func (w *World) Runnable(t *Task, buf []*Task) []*Task {
	buf = buf[:0]
	for _, a := range w.active {
		if a.state == stRunnable && a != t && a != w.stall {
			buf = append(buf, a)
		}
	}
	if len(buf) == 0 && w.stall != nil && w.stall != t && w.stall.state == stRunnable {
		buf = append(buf, w.stall) // nothing else can run: the stall is over
	}
	return buf
}

// block parks the current task until another task makes it runnable again.
func (w *World) block(kind string, obj unsafe.Pointer) {
	if w.aborted {
		runtime.Goexit()
	}
	t := w.cur
	t.state = stBlocked
	t.blockKind = kind
	t.blockObj = obj
	t.loadStreak = 0
	t.points++ // every block is a distinct decision point for the schedule
	w.Steps++
	w.parkCurrent(t)
	t.blockKind = ""
	t.blockObj = nil
}

func (w *World) parkCurrent(t *Task) {
	for {
		next := w.pick(t, true)
		if next == nil && w.OnIdle != nil {
			w.nopreempt++
			ok := w.OnIdle()
			w.nopreempt--
			if ok {
				if t.state == stRunnable {
					return
				}
				continue
			}
		}
		if next == nil {
			w.abort(&Failure{Kind: FailDeadlock, Detail: w.describeBlocked(), Step: w.Steps})
		}
		if next == t {
			return
		}
		w.handoff(t, next)
		if t.state == stRunnable {
			return
		}
		// woken although still blocked cannot happen; loop defensively
	}
}

func (w *World) describeBlocked() string {
	s := ""
	for _, a := range w.active {
		st := "runnable"
		switch a.state {
		case stBlocked:
			st = "blocked:" + a.blockKind
		case stQuiesce:
			st = "await-quiescence"
		}
		s += fmt.Sprintf("[%d %s %s] ", a.ID, a.Name, st)
	}
	return s
}

// BlockedTasks lists tasks that are not done, with what they wait for.
func (w *World) BlockedTasks() []string {
	var out []string
	for _, a := range w.active {
		if a == w.cur {
			continue
		}
		st := "runnable"
		if a.state == stBlocked {
			st = a.blockKind
		}
		out = append(out, fmt.Sprintf("%s:%s", a.Name, st))
	}
	return out
}

// LiveTasks returns the tasks that are neither done nor the caller, with their block kind ("" if runnable).
func (w *World) LiveTasks() (names []string, kinds []string) {
	for _, a := range w.active {
		if a == w.cur {
			continue
		}
		names = append(names, a.Name)
		k := ""
		if a.state == stBlocked {
			k = a.blockKind
		}
		kinds = append(kinds, k)
	}
	return
}

// wakeAll makes every task waiting on obj runnable.
func (w *World) wakeAll(obj unsafe.Pointer) {
	ws := w.waiters[obj]
	if len(ws) == 0 {
		return
	}
	for _, t := range ws {
		if t.state == stBlocked {
			t.state = stRunnable
			w.Strat.OnWake(w, t)
		}
	}
	delete(w.waiters, obj)
}

func (w *World) addWaiter(obj unsafe.Pointer, t *Task) {
	w.waiters[obj] = append(w.waiters[obj], t)
}

// BlockOn parks the calling task on an arbitrary address until WakeAll(addr).
func BlockOn(kind string, addr unsafe.Pointer) {
	w := W
	w.addWaiter(addr, w.cur)
	w.block(kind, addr)
}

// WakeAll releases every task parked with BlockOn(addr).
func WakeAll(addr unsafe.Pointer) {
	if W != nil {
		W.wakeAll(addr)
	}
}

// Go starts fn as a new simulated task (rewritten `go` statements land here).
func Go(fn func()) {
	w := W
	if w == nil {
		go fn()
		return
	}
	if w.aborted {
		runtime.Goexit()
	}
	t := w.newTask("", fn)
	t.Name = fmt.Sprintf("bg%d", t.ID)
	t.Background = true
	t.opKind = 0xb6
	w.point(KSpawn)
}

// Spawn starts a named harness task.
func (w *World) Spawn(name string, fn func()) *Task {
	t := w.newTask(name, fn)
	w.point(KSpawn)
	return t
}

// Join blocks until t has finished.
func (w *World) Join(t *Task) {
	w.point(KWait)
	for t.state != stDone {
		t.joiners = append(t.joiners, w.cur)
		w.block("join", unsafe.Pointer(t))
	}
}

// AwaitQuiescence blocks the caller until no other task is runnable.
func (w *World) AwaitQuiescence() {
	if w.aborted {
		runtime.Goexit()
	}
	t := w.cur
	for {
		others := false
		for _, a := range w.active {
			if a != t && a.state == stRunnable {
				others = true
				break
			}
		}
		if !others {
			return
		}
		t.state = stQuiesce
		t.points++
		w.parkCurrent(t)
	}
}

// SetFair switches to the fair round-robin drain phase (no strategy, no recorded deviations).
func (w *World) SetFair(on bool) {
	if on {
		w.stall = nil
	}
	w.fair = on
	w.fairCount = 0
	if on {
		w.fairStart = w.Steps
		if w.FairBudget == 0 {
			w.FairBudget = 1_000_000
		}
		// the fair phase gets its own budget on top of whatever the strategies consumed
		if w.MaxSteps < w.Steps+w.FairBudget {
			w.MaxSteps = w.Steps + w.FairBudget
		}
	}
}

// NoPreempt disables scheduling decisions at points (harness set-up / audits).
func (w *World) NoPreempt(fn func()) {
	w.nopreempt++
	defer func() { w.nopreempt-- }()
	fn()
}

func (w *World) NumTasks() int   { return len(w.tasks) }
func (w *World) NumActive() int  { return len(w.active) }
func (t *Task) Points() uint64   { return t.points }
func (t *Task) Done() bool       { return t.state == stDone }
func (w *World) Aborted() bool   { return w.aborted }
func (w *World) Log(x uint64)    { w.LogHash = Mix(w.LogHash, x) }
func (w *World) LogStr(s string) { w.LogHash = Mix(w.LogHash, HashString(s)) }

// OnNextUnlock registers a one-shot callback that runs when the current task next releases a mutex
// (harness use: the end of the table computation inside which a deletion handler was invoked).
func OnNextUnlock(fn func()) {
	if w := W; w != nil && w.cur != nil {
		w.cur.unlockHooks = append(w.cur.unlockHooks, fn)
	}
}

// RunUnlockHooks is called by the mutex shim after an unlock.
func RunUnlockHooks() {
	w := W
	if w == nil || w.cur == nil || len(w.cur.unlockHooks) == 0 {
		return
	}
	hs := w.cur.unlockHooks
	w.cur.unlockHooks = nil
	for _, h := range hs {
		h()
	}
}

// Probe is called at observation points the instrumenter inserted (simrewrite, probePoints); the
// harness listens through World.OnProbe. Not a scheduling point.
func Probe(name string, arg any) {
	if w := W; w != nil && w.OnProbe != nil {
		w.OnProbe(name, arg)
	}
}

// WatchMutex registers callbacks for one mutex (by address): onAcquire runs in the acquiring task right
// after it got the lock, onRelease in the releasing task just before it gives the lock up; neither is
// a scheduling point (harness use: bracket otter's maintenance passes under the eviction lock).
func (w *World) WatchMutex(addr unsafe.Pointer, onAcquire, onRelease func()) {
	w.watchAddr, w.watchAcq, w.watchRel = addr, onAcquire, onRelease
}

// PreUnlock is called by the mutex shim before it releases a mutex.
func PreUnlock(addr unsafe.Pointer) {
	if w := W; w != nil && w.watchAddr == addr && w.watchRel != nil && w.cur != nil {
		w.nopreempt++
		w.watchRel()
		w.nopreempt--
	}
}

// NoteLock / NoteUnlock let the mutex shim record which locks the current task holds and since when
// (event sequence value at acquisition).
func NoteLock(addr unsafe.Pointer) {
	if w := W; w != nil && w.cur != nil {
		w.cur.held = append(w.cur.held, heldLock{addr, w.evseq})
		if w.watchAddr == addr && w.watchAcq != nil {
			w.nopreempt++
			w.watchAcq()
			w.nopreempt--
		}
	}
}

func NoteUnlock(addr unsafe.Pointer) {
	w := W
	if w == nil || w.cur == nil {
		return
	}
	h := w.cur.held
	for i := len(h) - 1; i >= 0; i-- {
		if h[i].addr == addr {
			w.cur.held = append(h[:i], h[i+1:]...)
			return
		}
	}
}

// HeldSince returns the event sequence value at which the current task acquired the most recently
// acquired lock it still holds (the current value if it holds none).
func HeldSince() uint64 {
	w := W
	if w == nil || w.cur == nil {
		return 0
	}
	if n := len(w.cur.held); n > 0 {
		return w.cur.held[n-1].seq
	}
	return w.evseq
}
