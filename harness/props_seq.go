package zzverif

import "verifsim/simrt"

func hasSuffix(s, suf string) bool { return len(s) >= len(suf) && s[len(s)-len(suf):] == suf }
func hasPrefix(s, pre string) bool { return len(s) >= len(pre) && s[:len(pre)] == pre }

func probeSum(o *SeqOutcome, pre, suf string) (n int, kinds int) {
	for k, v := range o.Probes {
		if v > 0 && hasPrefix(k, pre) && hasSuffix(k, suf) {
			n += v
			kinds++
		}
	}
	return
}

func w(base map[string]int, over map[string]int) map[string]int {
	out := map[string]int{}
	for k, v := range base {
		out[k] = v
	}
	for k, v := range over {
		out[k] = v
	}
	return out
}

func init() {
	Props["C01"] = &PropSpec{ID: "C01", Engines: []Engine{&seqEngine{
		profile: Profile{Prop: "C01", Executor: []string{"sync"}},
		nontrivial: func(o *SeqOutcome) bool {
			a, _ := probeSum(o, "op:", "@absent")
			l, _ := probeSum(o, "op:", "@live")
			g, _ := probeSum(o, "op:", "@expired-unswept")
			return a > 0 && l > 0 && (g > 0 || o.Probes["auto-overflow"] > 0 || o.Probes["auto-expiration"] > 0)
		},
	}}}
	Props["C03"] = &PropSpec{ID: "C03", Engines: []Engine{
		&seqEngine{
			profile: Profile{Prop: "C03", Executor: []string{"sync"}, ForceExp: true,
				OpW: w(defaultOpW, map[string]int{"advance": 25, "all": 2, "keys": 2, "values": 2, "hottest": 2, "coldest": 2, "setexpires": 6, "setrefreshable": 4, "cleanup": 1})},
			nontrivial: func(o *SeqOutcome) bool {
				_, kinds := probeSum(o, "op:", "@expired-unswept")
				return kinds >= 3
			},
		},
		&seqEngine{
			profile:  Profile{Prop: "C03", Executor: []string{"sync"}, ForceExp: true, MinOps: 5, MaxOps: 60, OpW: w(defaultOpW, map[string]int{"advance": 20, "cleanup": 1})},
			saveLoad: true,
			nontrivial: func(o *SeqOutcome) bool {
				return o.Probes["saveload"] > 0
			},
		},
	}}
	Props["C07"] = &PropSpec{ID: "C07", Engines: []Engine{&seqEngine{
		profile: Profile{Prop: "C07", Executor: []string{"sync"},
			OpW: w(defaultOpW, map[string]int{"set": 25, "setmax": 4, "compute": 8, "cleanup": 6, "advance": 10})},
		nontrivial: func(o *SeqOutcome) bool {
			return o.Probes["auto-overflow"] > 0 || o.Probes["auto-expiration"] > 0
		},
	}}}
	Props["C10"] = &PropSpec{ID: "C10", Engines: []Engine{&seqEngine{
		profile: Profile{Prop: "C10", Executor: []string{"sync"},
			OpW: w(defaultOpW, map[string]int{"load": 25, "bulkget": 25, "set": 8, "invalidate": 6, "advance": 8})},
		nontrivial: func(o *SeqOutcome) bool {
			n, kinds := probeSum(o, "load:", "")
			return n > 0 && kinds >= 2 && (o.Probes["bulk-omit"] > 0 || o.Probes["bulk-extra"] > 0 || o.Probes["bulk-duplicate-key"] > 0)
		},
	}}}
	Props["C11"] = &PropSpec{ID: "C11", Engines: []Engine{&seqEngine{
		profile: Profile{Prop: "C11", Executor: []string{"sync"}, ForceRef: true,
			OpW: w(defaultOpW, map[string]int{"load": 25, "bulkget": 12, "refresh": 10, "bulkrefresh": 8, "advance": 20, "set": 10, "setrefreshable": 5})},
		nontrivial: func(o *SeqOutcome) bool {
			n, _ := probeSum(o, "reload:", "")
			r, _ := probeSum(o, "refresh-", "")
			return n > 0 || (r > 0 && o.Probes["bulk-reload"] > 0)
		},
	}}}
	Props["C12"] = &PropSpec{ID: "C12", Engines: []Engine{
		&seqEngine{
			profile: Profile{Prop: "C12", Executor: []string{"sync"}, ForceExp: true, ExtremeClk: true,
				OpW: w(defaultOpW, map[string]int{"setexpires": 8, "setrefreshable": 6, "advance": 18, "getentry": 6, "getquiet": 6})},
			nontrivial: func(o *SeqOutcome) bool {
				l, _ := probeSum(o, "op:", "@live")
				return l >= 5
			},
		},
		&seqEngine{
			profile: Profile{Prop: "C12", Executor: []string{"sync"}, ForceExp: true, ForceRef: true,
				OpW: w(defaultOpW, map[string]int{"setexpires": 8, "setrefreshable": 8, "advance": 18, "load": 10})},
			nontrivial: func(o *SeqOutcome) bool {
				l, _ := probeSum(o, "op:", "@live")
				return l >= 5
			},
		},
	}}
	// refresh deadlines without an expiry policy (different node layouts: br, brw, bsr)
	Props["C12"].Engines = append(Props["C12"].Engines, &seqEngine{
		profile: Profile{Prop: "C12", Executor: []string{"sync"}, NoExp: true, ForceRef: true,
			OpW: w(defaultOpW, map[string]int{"setrefreshable": 8, "advance": 18, "load": 12, "refresh": 5, "getentry": 5})},
		nontrivial: func(o *SeqOutcome) bool {
			l, _ := probeSum(o, "op:", "@live")
			return l >= 5
		},
	})
	Props["C13"] = &PropSpec{ID: "C13", Engines: []Engine{&seqEngine{
		profile: Profile{Prop: "C13", Executor: []string{"sync"}, ForceExp: true, BigTTL: true,
			OpW: map[string]int{"set": 30, "setifabsent": 5, "get": 8, "compute": 4, "invalidate": 5, "setexpires": 6, "cleanup": 14, "advance": 22, "esize": 4,
				"getentry": 1, "getquiet": 1, "computeifabsent": 1, "computeifpresent": 1, "invalidateall": 1, "setrefreshable": 0, "load": 2, "bulkget": 1, "refresh": 0, "bulkrefresh": 0,
				"all": 1, "keys": 0, "values": 0, "hottest": 0, "coldest": 0, "setmax": 0, "getmax": 0, "wsize": 0, "stats": 0}},
		nontrivial: func(o *SeqOutcome) bool {
			return o.Probes["sweep-checks"] > 0 && o.Probes["auto-expiration"] > 0
		},
	}}}
	// queued executor: maintenance lags behind, the one-stripe read buffer overflows and drops read
	// events, so a deadline extended by a read may have to be repaired by the sweep itself
	Props["C13"].Engines = append(Props["C13"].Engines, &seqEngine{
		profile: Profile{Prop: "C13", Executor: []string{"queued"}, ForceExp: true, BigTTL: true, NoRef: true, SmallReadBuf: true, ReadBursts: true, WheelBias: true, Keys: [2]int{2, 5},
			OpW: map[string]int{"set": 18, "get": 40, "getentry": 4, "invalidate": 3, "cleanup": 12, "advance": 24, "esize": 3, "runexec": 5,
				"setifabsent": 2, "compute": 2, "getquiet": 1, "computeifabsent": 1, "computeifpresent": 1, "invalidateall": 0, "setexpires": 0, "setrefreshable": 0, "load": 0, "bulkget": 0, "refresh": 0, "bulkrefresh": 0,
				"all": 1, "keys": 0, "values": 0, "hottest": 0, "coldest": 0, "setmax": 0, "getmax": 0, "wsize": 0, "stats": 0}},
		nontrivial: func(o *SeqOutcome) bool {
			return o.Probes["sweep-checks"] > 0 && o.Probes["auto-expiration"] > 0
		},
	})
	// scenario skeleton: entries scheduled in a fine wheel level, a burst of reads that overflows the
	// read buffer while the executor is held, reads whose events are dropped, then CleanUp calls
	// placed between the old and the new deadlines and shortly after the new ones
	Props["C13"].Engines = append(Props["C13"].Engines, &seqEngine{
		profile: Profile{Prop: "C13", Executor: []string{"queued"}, ForceExp: true, BigTTL: true, NoRef: true, SmallReadBuf: true, WheelBias: true, Keys: [2]int{2, 6}},
		script: func(r *simrt.Rng, cfg *Cfg) []Op {
			var ops []Op
			id := 32
			val := func() int { id += 32; return id * cfg.W() }
			tick := int64(1) << 30
			n := 1 + r.Intn(cfg.Keys)
			for k := 0; k < n; k++ {
				ops = append(ops, Op{Kind: "set", K: k, V: val()})
				if r.Intn(3) == 0 {
					ops = append(ops, Op{Kind: "advance", D: int64(r.Intn(4)) * tick / 2})
				}
			}
			if r.Intn(4) != 0 {
				ops = append(ops, Op{Kind: "cleanup"})
			}
			rounds := 1 + r.Intn(3)
			for round := 0; round < rounds; round++ {
				filler := r.Intn(n)
				for i := 0; i < 16+r.Intn(30); i++ {
					ops = append(ops, Op{Kind: "get", K: filler})
				}
				ops = append(ops, Op{Kind: "advance", D: int64(r.Intn(3 * int(tick)))})
				for i := 0; i < 1+r.Intn(3); i++ {
					ops = append(ops, Op{Kind: "get", K: r.Intn(n)})
				}
				if r.Intn(3) == 0 {
					ops = append(ops, Op{Kind: "runexec", D: -1})
				}
				// step towards / past deadlines with CleanUp in between
				for i := 0; i < 1+r.Intn(4); i++ {
					var d int64
					switch r.Intn(4) {
					case 0:
						d = int64(1+r.Intn(70)) * tick
					case 1:
						d = tbl(cfg.ExpTbl[0], 0, 0) + int64(r.Intn(5))*tick
					case 2:
						d = tbl(cfg.ExpTbl[2], 0, 0) - int64(r.Intn(20))*tick
					default:
						d = genDuration(r, &Profile{BigTTL: true})
					}
					if cfg.Expiry != "custom" {
						d = cfg.ExpD + int64(r.Intn(40)-20)*tick
					}
					if d <= 0 {
						d = tick
					}
					ops = append(ops, Op{Kind: "advance", D: d}, Op{Kind: "cleanup"})
					if r.Intn(2) == 0 {
						ops = append(ops, Op{Kind: "advance", D: int64(2+r.Intn(30)) * tick}, Op{Kind: "cleanup"}, Op{Kind: "esize"})
					}
				}
			}
			return ops
		},
		nontrivial: func(o *SeqOutcome) bool {
			return o.Probes["sweep-checks"] > 0 && o.Probes["auto-expiration"] > 0
		},
	})
	Props["C19"] = &PropSpec{ID: "C19", Engines: []Engine{
		&seqEngine{
			profile:  Profile{Prop: "C19", Executor: []string{"sync"}, MinOps: 3, MaxOps: 80, OpW: w(defaultOpW, map[string]int{"set": 30, "advance": 8})},
			saveLoad: true,
			nontrivial: func(o *SeqOutcome) bool {
				return o.Probes["saveload"] > 0
			},
		},
		// a harness-held executor: at save time writes are still in the write buffer and scheduled
		// drains have not run; the save has to bring the policy up to date itself (views that lag
		// behind pending maintenance, and refresh, are left out as in C13's / C17's queued engines)
		&seqEngine{
			profile: Profile{Prop: "C19", Executor: []string{"queued"}, NoRef: true, MinOps: 3, MaxOps: 60,
				OpW: w(defaultOpW, map[string]int{"set": 34, "advance": 8, "runexec": 3, "cleanup": 1,
					"hottest": 0, "coldest": 0, "setmax": 0, "getmax": 0, "wsize": 0, "esize": 0, "stats": 0})},
			saveLoad: true,
			nontrivial: func(o *SeqOutcome) bool {
				return o.Probes["saveload"] > 0
			},
		},
		&seqEngine{
			profile:  Profile{Prop: "C19", Executor: []string{"sync"}, ForceExp: true, ExtremeClk: true, MinOps: 3, MaxOps: 40, OpW: w(defaultOpW, map[string]int{"set": 30, "setexpires": 10, "advance": 8})},
			saveLoad: true,
			nontrivial: func(o *SeqOutcome) bool {
				return o.Probes["saveload"] > 0
			},
		},
	}}
	Props["C20"] = &PropSpec{ID: "C20", Engines: []Engine{&seqEngine{
		profile: Profile{Prop: "C20", Executor: []string{"sync"}, Stats: true, OpW: w(defaultOpW, map[string]int{"stats": 8, "load": 12, "bulkget": 8})},
		nontrivial: func(o *SeqOutcome) bool {
			n, _ := probeSum(o, "load:", "")
			l, _ := probeSum(o, "op:get", "@live")
			a, _ := probeSum(o, "op:get", "@absent")
			return n > 0 && l > 0 && a > 0
		},
	}}}
}
