package zzverif

import "verifsim/simrt"

type CompCase struct{}
type CompOutcome struct {
	Viol    []Violation
	LogHash uint64
}

func RunComp(seed uint64, c *CompCase, sched []simrt.Deviation, replay bool) *CompOutcome {
	return &CompOutcome{}
}
