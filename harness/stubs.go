package zzverif

import "verifsim/simrt"

type ConcCase struct{}
type ConcOpts struct{}
type ConcOutcome struct {
	Viol    []Violation
	LogHash uint64
}
type CompCase struct{}
type CompOutcome struct {
	Viol    []Violation
	LogHash uint64
}

func RunConc(seed uint64, c *ConcCase, sched []simrt.Deviation, replay bool, spec *PropSpec) *ConcOutcome {
	return &ConcOutcome{}
}
func RunComp(seed uint64, c *CompCase, sched []simrt.Deviation, replay bool) *CompOutcome {
	return &CompOutcome{}
}
