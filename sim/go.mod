module verifsim

go 1.24
