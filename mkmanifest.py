#!/usr/bin/env python3
"""Regenerate MANIFEST.json from props_meta.py (single source of truth for per-property texts)."""
import json, os, sys
VERIF = os.path.dirname(os.path.abspath(__file__))
sys.path.insert(0, VERIF)
from props_meta import META, NOT_APPLICABLE

ENV = "GOFLAGS=-mod=mod GOPROXY=off GOSUMDB=off GOTOOLCHAIN=local PATH=/opt/veriftools/go1.26.8/bin:$PATH"
m = {
    "version": 1,
    "setup_cmd": "cd /verif/tools/simrewrite && %s go build -o /verif/bin/simrewrite . && cd /verif/sim && %s go vet ./simrt ./ssync ./satomic" % (ENV, ENV),
    "hooks": {
        "guard": "verif",
        "enable": "no hooks live in /repo: every check copies /repo's working tree to a scratch directory, instruments it with /verif/bin/simrewrite, drops /verif/overlay/*.go (//go:build verif) and the harness into the copy and builds with -tags verif (see /verif/build.sh)",
        "baseline_off_cmd": "cd /repo && go test -vet=off -count=1 -timeout 25m ./...",
        "source_commits": [],
        "add_only": True,
    },
    "engines": [
        {"name": "verifsim", "path": "/verif/sim", "serves_properties": sorted(META), "kind_free_text": "deterministic cooperative scheduler + sync/atomic/channel/time/rand/maphash shims (seeded schedules, deviations as replay form)"},
        {"name": "simrewrite", "path": "/verif/tools/simrewrite", "serves_properties": sorted(META), "kind_free_text": "typed source-to-source instrumenter applied to a scratch copy of /repo"},
        {"name": "harness", "path": "/verif/harness", "serves_properties": sorted(META), "kind_free_text": "seq / conc / comp engines, reference model, oracles, minimiser, replay"},
    ],
    "checks": [],
    "notes": "Technique family: deterministic simulation with fault injection. ./check <id> [--tier quick|thorough] [--seed N]; ./check replay <file>; ./check selftest. Exit 2 = build/instrumentation/watchdog trouble, never a verdict. Known findings: /verif/known_findings.json (read by every check; no open entry; 'fixed' entries suppress nothing). Genuine defects repaired in /repo with unguarded 'fix:' commits: 87558db 7ff25c5 735cff9 0ac0170 eb622bb 36fa03c 38bdb38 397ed47 96ea7b9 af28bbc 6965b78 d8499fb 159aebe bd7dbb1 366ca72 d944fc5 e723881 2730d21 d8b2b96 48b862b (DESIGN.md section 9). Design, false alarms corrected, seeded and behaviour-preserving change experiments, rounds 3 and 4: /verif/DESIGN.md sections 11-15.",
    "not_applicable": [{"property_id": k, "reason": v} for k, v in sorted(NOT_APPLICABLE.items())],
}
for pid in sorted(META):
    meta = META[pid]
    m["checks"].append({
        "property_id": pid,
        "quick_cmd": "./check %s --tier quick" % pid,
        "thorough_cmd": "./check %s --tier thorough" % pid,
        "evidence_file": "/verif/evidence/%s.json" % pid,
        "replay_cmd_template": "./check replay {path}",
        "engine": "verifsim",
        "level_claimed": {"category": "exploration", "text": meta["level_text"], "design_ref": meta.get("design_ref", "DESIGN.md section 4, " + pid)},
        "level_note": meta["level_note"],
        "technique": meta["technique"],
    })
with open(os.path.join(VERIF, "MANIFEST.json"), "w") as f:
    json.dump(m, f, indent=1)
    f.write("\n")
print("MANIFEST.json: %d checks, %d not_applicable" % (len(m["checks"]), len(m["not_applicable"])))
