// Package smaphash replaces "hash/maphash": seeds come from the run's hash stream so that bucket
// placement and sketch counters are reproducible; HashMode 1 produces heavy bucket collisions.
package smaphash

import (
	"fmt"
	"hash/maphash"
	"math"

	"verifsim/simrt"
)

type Seed struct {
	s   maphash.Seed
	sim uint64
	on  bool
	col bool
}

func MakeSeed() Seed {
	if w := simrt.W; w != nil {
		w.HashSeq = simrt.Mix(w.HashSeq, 0x51ed)
		return Seed{sim: w.HashSeq, on: true, col: w.HashMode == 1}
	}
	return Seed{s: maphash.MakeSeed()}
}

func Comparable[T comparable](seed Seed, v T) uint64 {
	if !seed.on {
		return maphash.Comparable(seed.s, v)
	}
	var h uint64
	switch x := any(v).(type) {
	case int:
		h = simrt.Mix(seed.sim, uint64(x))
	case int64:
		h = simrt.Mix(seed.sim, uint64(x))
	case uint64:
		h = simrt.Mix(seed.sim, x)
	case uint32:
		h = simrt.Mix(seed.sim, uint64(x))
	case int32:
		h = simrt.Mix(seed.sim, uint64(x))
	case string:
		h = simrt.Mix(seed.sim, simrt.HashString(x))
	case float64:
		if x == 0 {
			x = 0 // +0.0 and -0.0 are equal keys: one hash, as hash/maphash.Comparable guarantees
		}
		h = simrt.Mix(seed.sim, math.Float64bits(x))
	case float32:
		if x == 0 {
			x = 0
		}
		h = simrt.Mix(seed.sim, uint64(math.Float32bits(x)))
	default:
		h = simrt.Mix(seed.sim, simrt.HashString(fmt.Sprintf("%#v", v)))
	}
	if seed.col {
		// keep h2 (low 7 bits) varied but squeeze h1 into 2 values: long bucket chains.
		h = (h & 0x7f) | ((h >> 20 & 1) << 7)
	}
	return h
}

func String(seed Seed, s string) uint64 { return Comparable(seed, s) }
func Bytes(seed Seed, b []byte) uint64  { return Comparable(seed, string(b)) }
