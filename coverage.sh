#!/bin/bash
# coverage.sh [seconds-per-property]: reach measure (development aid, never a verdict). Builds the worker
# with statement coverage of the instrumented otter packages, runs every property's engines for a
# few seconds on one core each, and writes coverage/REACH.md: per-function coverage of the anchored
# files and every statement block that no run reached.
set -u
VERIF="$(cd "$(dirname "$0")" && pwd)"
SECS="${1:-6}"
SCR="${VERIF_SCRATCH:-/var/tmp/verif-scratch}/coverage-$$"
export GOFLAGS=-mod=mod GOPROXY=off GOSUMDB=off GOTOOLCHAIN=local CGO_ENABLED=0 PATH=/opt/veriftools/go1.26.8/bin:$PATH
"$VERIF/build.sh" "$SCR" > /dev/null || { rm -rf "$SCR"; exit 2; }
(cd "$SCR/otter" && go build -tags verif -cover -coverpkg=github.com/maypok86/otter/v2,github.com/maypok86/otter/v2/internal/... -o "$SCR/simworker-cov" ./internal/zzverif/cmd/simworker) || { rm -rf "$SCR"; exit 2; }
mkdir -p "$SCR/cd" "$SCR/out" "$SCR/rp"
for p in C01 C02 C03 C04 C05 C06 C07 C08 C09 C10 C11 C12 C13 C14 C15 C16 C17 C18 C19 C20; do
  GOCOVERDIR="$SCR/cd" "$SCR/simworker-cov" -prop $p -seed ${VERIF_SEED:-1} -budget $SECS -out "$SCR/out" -replays "$SCR/rp" -known "$VERIF/known_findings.json" > /dev/null 2>&1 &
done
wait
(cd "$SCR/otter" && go tool covdata textfmt -i="$SCR/cd" -o "$SCR/cover.txt" && go tool cover -func="$SCR/cover.txt" > "$SCR/func.txt") || { rm -rf "$SCR"; exit 2; }
mkdir -p "$VERIF/coverage"
python3 - "$SCR" "$SECS" > "$VERIF/coverage/REACH.md" <<'PY'
import re, sys, collections
scr, secs = sys.argv[1], sys.argv[2]
core = ['cache_impl.go','policy.go','sketch.go','singleflight.go','persistence.go','internal/hashmap/map.go','internal/deque/queue/mpsc.go',
        'internal/deque/linked.go','internal/expiration/variable.go','internal/lossy/ring.go','internal/lossy/striped.go','internal/xmath/xmath.go']
pre = 'github.com/maypok86/otter/v2/'
print("# Reach of the generated workloads (statement coverage of the instrumented otter)\n")
print("Produced by `./coverage.sh %s`: every property's engines ran for %s s on one core each. A development aid that shows which code the simulated workloads never enter; it decides nothing.\n" % (secs, secs))
print("## Functions of the anchored files below 100 %\n")
print("| function | coverage |\n|---|---|")
for l in open(scr + '/func.txt'):
    parts = l.split()
    if len(parts) != 3 or not parts[0].startswith(pre):
        continue
    f = parts[0][len(pre):]
    fn = f.rsplit(':', 2)[0]
    if fn in core and float(parts[2].rstrip('%')) < 100:
        print("| `%s` %s | %s |" % (f.rstrip(':'), parts[1], parts[2]))
cov = collections.defaultdict(int)
for l in open(scr + '/cover.txt'):
    m = re.match(r'(.*):(\d+)\.\d+,(\d+)\.\d+ \d+ (\d+)', l)
    if m:
        cov[(m.group(1), int(m.group(2)), int(m.group(3)))] += int(m.group(4))
print("\n## Statement blocks never reached\n")
for (f, sl, el), c in sorted(cov.items()):
    short = f[len(pre):] if f.startswith(pre) else f
    if c == 0 and short in core:
        src = open(scr + '/otter/' + short).read().split('\n')
        txt = ' / '.join(x.strip() for x in src[sl-1:min(el, sl+2)])[:140].replace('|', '\\|')
        print("- `%s:%d-%d` %s" % (short, sl, el, txt))
PY
echo "coverage: wrote $VERIF/coverage/REACH.md"
rm -rf "$SCR"; rmdir "$(dirname "$SCR")" 2>/dev/null
exit 0
