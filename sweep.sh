#!/bin/bash
# sweep.sh <budget_s> <workers> <jobs> <seed...> : run every check on the unchanged tree with the given seeds
# (development aid for background runs: evidence goes to a scratch directory, never to /verif/evidence).
# Prints one line per (check, seed); any exit code other than 0 is a false alarm or a harness problem.
B=$1; W=$2; J=$3; shift 3
HERE="$(cd "$(dirname "$0")" && pwd)"
export VERIF_EVIDENCE_DIR=/var/tmp/sweep-evidence
run() { p=$1; s=$2; out=$("$HERE/check" $p ${TIER:+--tier $TIER} --seed $s --budget $B --workers $W 2>&1); rc=$?; echo "$p seed=$s exit=$rc $(echo "$out" | grep -o 'runs=[0-9]*' | head -1) $(echo "$out" | grep -E '^  rule=|^VIOLATION' | head -4 | tr '\n' ' ')"; }
export -f run; export HERE B W TIER
for s in "$@"; do for i in $(seq -w 1 20); do echo "C$i $s"; done; done | xargs -P $J -n 2 bash -c 'run $0 $1'
echo SWEEP-DONE
