// Package ssync replaces "sync" in instrumented code. Types keep the size of the originals where
// otter does padding arithmetic (Mutex: 8 bytes).
package ssync

import (
	"sync"
	"unsafe"

	"verifsim/simrt"
)

type Locker = sync.Locker

// Mutex: the real mutex holds the locked bit (only TryLock/Unlock are used under simulation);
// waiters live in the world's side table keyed by address.
type Mutex struct{ m sync.Mutex }

func (m *Mutex) Lock() {
	w := simrt.W
	if w == nil {
		m.m.Lock()
		return
	}
	simrt.Point(simrt.KLock)
	for !m.m.TryLock() {
		simrt.BlockOn("mutex", unsafe.Pointer(m))
	}
	simrt.NoteLock(unsafe.Pointer(m))
}

func (m *Mutex) TryLock() bool {
	if simrt.W == nil {
		return m.m.TryLock()
	}
	simrt.Point(simrt.KLock)
	if m.m.TryLock() {
		simrt.NoteLock(unsafe.Pointer(m))
		return true
	}
	return false
}

func (m *Mutex) Unlock() {
	if simrt.W == nil {
		m.m.Unlock()
		return
	}
	simrt.Point(simrt.KUnlock)
	if m.m.TryLock() {
		m.m.Unlock()
		panic("sync: unlock of unlocked mutex")
	}
	simrt.PreUnlock(unsafe.Pointer(m))
	m.m.Unlock()
	simrt.NoteUnlock(unsafe.Pointer(m))
	simrt.WakeAll(unsafe.Pointer(m))
	simrt.RunUnlockHooks()
}

// RWMutex is modelled as an exclusive lock plus reader count.
type RWMutex struct {
	m       sync.RWMutex
	readers int32
	writer  bool
}

func (m *RWMutex) Lock() {
	if simrt.W == nil {
		m.m.Lock()
		return
	}
	simrt.Point(simrt.KLock)
	for m.writer || m.readers > 0 {
		simrt.BlockOn("rwmutex", unsafe.Pointer(m))
	}
	m.writer = true
}
func (m *RWMutex) Unlock() {
	if simrt.W == nil {
		m.m.Unlock()
		return
	}
	simrt.Point(simrt.KUnlock)
	m.writer = false
	simrt.WakeAll(unsafe.Pointer(m))
}
func (m *RWMutex) RLock() {
	if simrt.W == nil {
		m.m.RLock()
		return
	}
	simrt.Point(simrt.KLock)
	for m.writer {
		simrt.BlockOn("rwmutex", unsafe.Pointer(m))
	}
	m.readers++
}
func (m *RWMutex) RUnlock() {
	if simrt.W == nil {
		m.m.RUnlock()
		return
	}
	simrt.Point(simrt.KUnlock)
	m.readers--
	simrt.WakeAll(unsafe.Pointer(m))
}
func (m *RWMutex) TryLock() bool {
	if simrt.W == nil {
		return m.m.TryLock()
	}
	simrt.Point(simrt.KLock)
	if m.writer || m.readers > 0 {
		return false
	}
	m.writer = true
	return true
}

// WaitGroup.
type WaitGroup struct {
	wg sync.WaitGroup
	n  int64
}

func (g *WaitGroup) Add(delta int) {
	if simrt.W == nil {
		g.wg.Add(delta)
		return
	}
	simrt.Point(simrt.KRMW)
	g.n += int64(delta)
	if g.n < 0 {
		panic("sync: negative WaitGroup counter")
	}
	if g.n == 0 {
		simrt.WakeAll(unsafe.Pointer(g))
	}
}
func (g *WaitGroup) Done() { g.Add(-1) }
func (g *WaitGroup) Wait() {
	if simrt.W == nil {
		g.wg.Wait()
		return
	}
	simrt.Point(simrt.KWait)
	for g.n != 0 {
		simrt.BlockOn("waitgroup", unsafe.Pointer(g))
	}
}
func (g *WaitGroup) Go(f func()) {
	g.Add(1)
	simrt.Go(func() {
		defer g.Done()
		f()
	})
}

// Once.
type Once struct {
	o    sync.Once
	done uint32
	m    Mutex
}

func (o *Once) Do(f func()) {
	if simrt.W == nil {
		o.o.Do(f)
		return
	}
	simrt.Point(simrt.KLoad)
	if o.done == 1 {
		return
	}
	o.m.Lock()
	defer o.m.Unlock()
	if o.done == 0 {
		defer func() { o.done = 1 }()
		f()
	}
}

func OnceFunc(f func()) func() {
	var o Once
	return func() { o.Do(f) }
}

// Cond. Copyable before first use, like the original.
type Cond struct {
	L Locker
	c *sync.Cond
}

func NewCond(l Locker) *Cond { return &Cond{L: l, c: sync.NewCond(l)} }

type condWaiter struct{ signaled bool }

func (c *Cond) key() unsafe.Pointer { return unsafe.Pointer(c) }

func (c *Cond) Wait() {
	if simrt.W == nil {
		c.c.Wait()
		return
	}
	w := simrt.W
	gen := w.CondGen(c.key())
	c.L.Unlock()
	for w.CondGen(c.key()) == gen {
		simrt.BlockOn("cond", c.key())
	}
	c.L.Lock()
}

func (c *Cond) Broadcast() {
	if simrt.W == nil {
		c.c.Broadcast()
		return
	}
	simrt.Point(simrt.KUnlock)
	simrt.W.CondBump(c.key())
	simrt.WakeAll(c.key())
}

// Signal wakes all waiters (spurious wake-ups are permitted by sync.Cond's contract for callers that
// re-check their predicate in a loop, which is the documented usage).
func (c *Cond) Signal() { c.Broadcast() }

// Pool.
type Pool struct {
	p   sync.Pool
	New func() any
}

func (p *Pool) Get() any {
	w := simrt.W
	if w == nil {
		if x := p.p.Get(); x != nil {
			return x
		}
		if p.New != nil {
			return p.New()
		}
		return nil
	}
	if x, ok := w.PoolGet(unsafe.Pointer(p)); ok {
		return x
	}
	if p.New != nil {
		return p.New()
	}
	return nil
}

func (p *Pool) Put(x any) {
	w := simrt.W
	if w == nil {
		p.p.Put(x)
		return
	}
	if x == nil {
		return
	}
	w.PoolPut(unsafe.Pointer(p), x)
}

// Map passes through (not used by otter's non-test code; present so that mutations still compile).
type Map = sync.Map
