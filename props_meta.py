# Per-property descriptions used in MANIFEST.json and in the evidence files: what a "non-trivial
# distinct case" is, which components ran real code, level texts, assumptions.
REAL = ("all of otter's non-test code from an instrumented copy of /repo's working tree: cache_impl, policy, "
        "hashmap, MPSC write buffer, lossy read buffer, timer wheel, singleflight, sketch, stats, persistence")
STUBS = ("none of otter. The harness plays the parties otter exposes seams for: clock, executor variants, loaders, "
         "deletion handlers, expiry/refresh calculators, weigher, io streams; sync, sync/atomic, channels, go statements, "
         "time.Now, math/rand, hash/maphash, runtime.GOMAXPROCS/AddCleanup are replaced by simulator shims")


def comp():
    return {"real": REAL, "stubbed": STUBS}


SEQ_NOTE = ("Trusted: the simulator runtime and instrumenter (self-tested: determinism + repository tests on the instrumented "
            "tree), the reference model (DESIGN.md Appendix A), go1.26.8 instead of the baseline's go1.24. "
            "Sampling: programs of 20-200 operations over 2-12 keys; no exhaustiveness claim.")
CONC_NOTE = ("Trusted: the simulator runtime (schedules are decided at sync/atomic/channel/clock/callback points under sequential "
             "consistency; plain-memory races and weak-memory effects are not explored), the instrumenter, the oracle. "
             "Sampling: 2-5 client tasks x 3-40 operations; schedules from random-walk / PCT / burst / window strategies.")

META = {
    "C01": {
        "technique": "deterministic simulation: seeded operation/clock sequences vs executable reference model (refinement check after every step)",
        "level_text": "Seeded search over (configuration, operation sequence, clock advances) with every return value, deletion event and the full observable state compared to a map-with-deadlines model after every step; all 12 node layouts x expiry/refresh kinds x capacities are drawn. A clean batch is evidence, not proof.",
        "level_note": SEQ_NOTE,
        "rule": "one case = (configuration, generated operation sequence) run sequentially with the same-goroutine executor and a manual clock; every step's return values, events and the full observable state are compared with the reference model. Non-trivial: the run applied operations to keys in state absent AND live AND (expired-unswept or automatically removed). Distinct: hash of (configuration, operation list).",
        "components": comp(),
        "assumptions": ["behaviour the documentation leaves open (cancelled Compute as a read for access expiry; pre/post-read deadline in GetEntry; refresh rule for volunteered bulk keys; whether a load result survives an eviction of its key during the same bulk call) is accepted either way"],
    },
    "C03": {
        "technique": "deterministic simulation: clock steered onto deadlines (sub-tick, no sweep), every operation kind applied to expired-unswept keys, incl. save/load; model visibility oracle",
        "level_text": "Seeded search that drives keys into the expired-but-unswept state (clock advanced to deadline-1/deadline/deadline+1, no CleanUp) and applies every public operation kind to them, comparing results, events and state with the model; a second engine saves and reloads caches holding such entries. The op-kind x key-state matrix is reported so an uncovered cell is visible.",
        "level_note": SEQ_NOTE,
        "rule": "one case = (configuration with expiry, operation sequence [, save/load plan]). Non-trivial: at least 3 different operation kinds were applied to an expired-but-unswept key (sequence engine) or a save/load round trip ran (persistence engine). Distinct: hash of the case.",
        "components": comp(),
        "assumptions": ["the concurrent-rounds form (clock moves only at barriers) is covered by the C02/C09 engines only for configurations without reachable expiry; C03's concurrent half is decided sequentially per round here"],
    },
    "C07": {
        "technique": "deterministic simulation: weights/maxima/clock sequences; every Overflow/Expiration event checked against the model's physical weight and deadlines at that moment",
        "level_text": "Seeded search over weight patterns, SetMaximum changes and clock advances with the same-goroutine executor; each automatic removal event is checked for truthfulness against the model (total physical weight > maximum or entry alone exceeds it and weight > 0; deadline <= now), unbounded caches must never emit Overflow.",
        "level_note": SEQ_NOTE,
        "rule": "one case = (configuration, operation sequence). Non-trivial: at least one automatic removal (Overflow or Expiration) happened in the run. Distinct: hash of the case.",
        "components": comp(),
        "assumptions": ["when sub-operations of one call interleave with evictions, the weight total used is an upper bound (model weight + weights still to be installed by the call): sound, slightly weaker"],
    },
    "C10": {
        "technique": "deterministic simulation with loader fault injection: result shapes (value/error/not-found/panic/partial/extra/empty) x cache content shapes; statement-derived oracle on results, cache state and loader arguments",
        "level_text": "Seeded search over Get/BulkGet with injected loader outcomes against caches containing hits, misses, stale and expired-unswept entries and duplicate keys; results, post-state and the logged loader argument lists are compared with what the statement prescribes.",
        "level_note": SEQ_NOTE,
        "rule": "one case = (configuration, operation sequence biased to Get/BulkGet with loader plans). Non-trivial: at least two different loader outcomes occurred and at least one bulk call had omitted, extra or duplicate keys. Distinct: hash of the case.",
        "components": comp(),
        "assumptions": [],
    },
    "C11": {
        "technique": "deterministic simulation: reads around the refresh deadline with injected reload outcomes, manual Refresh/BulkRefresh result channels, same-goroutine executor (concurrent part: see C09 engine)",
        "level_text": "Seeded search over reads/writes/clock advances around refresh deadlines with reload outcomes value/error/not-found/panic; checks the value served, the Reload arguments (key, old value), swap/keep/remove, refresh and expiry deadlines afterwards, exactly one result per manual refresh, nil channel without a RefreshCalculator.",
        "level_note": SEQ_NOTE,
        "rule": "one case = (configuration with refresh, operation sequence). Non-trivial: at least one reload of a stale entry or one manual refresh with a bulk reload happened. Distinct: hash of the case.",
        "components": comp(),
        "assumptions": ["readers-while-reload-in-flight is exercised by the concurrent engines (C08/C09), not here"],
    },
    "C12": {
        "technique": "deterministic simulation: extreme clocks/durations (up to MaxInt64) through every calculator kind and override; exact deadline comparison via GetEntryQuietly after every step, visibility flip at the deadline",
        "level_text": "Seeded search with clock origins up to 2^63-2^50 and durations up to MaxInt64 through creation/write/access/custom calculators, SetExpiresAfter/SetRefreshableAfter; ExpiresAtNano/RefreshableAtNano must equal op time + duration exactly where representable, otherwise the entry must stay visible; the generator steps the clock to deadline-1/deadline/deadline+1.",
        "level_note": SEQ_NOTE,
        "rule": "one case = (configuration with expiry [and refresh], operation sequence). Non-trivial: at least 5 operations touched live entries (deadline computed and compared). Distinct: hash of the case.",
        "components": comp(),
        "assumptions": ["the simulated clock never reaches MaxInt64 itself"],
    },
    "C13": {
        "technique": "deterministic simulation: TTLs from ns to years, huge clock jumps, CleanUp as an operation; after each CleanUp every entry overdue by more than one tick must have been reported (timer-wheel sweep oracle)",
        "level_text": "Seeded search with TTLs log-uniform from 1 ns to 3 years (all wheel levels, cascades), extensions, invalidations and clock jumps up to centuries; after each CleanUp at T no entry with deadline and write older than T-1.1s may remain unreported, and EstimatedSize must equal the number of unreported entries.",
        "level_note": SEQ_NOTE,
        "rule": "one case = (configuration with expiry, operation sequence with CleanUp). Non-trivial: at least one sweep check ran and at least one automatic expiration was observed. Distinct: hash of the case.",
        "components": comp(),
        "assumptions": ["entries whose deadline was shortened by a read/override are exempt, as the property's proviso says", "the write-vs-maintenance race of C13 is explored by the concurrent engine (C05/C14 runs with expiry)"],
    },
    "C19": {
        "technique": "deterministic simulation with simulated stream (short reads, EOF-with-data) and clock offset between SaveCacheTo and LoadCacheFrom; statement-derived round-trip oracle",
        "level_text": "Seeded search: a source cache is built by a random program, saved to a simulated stream, the clock advances (0, 1, onto a deadline, or far), and a fresh target (same, smaller or larger maximum) loads through a reader with short reads; key/value/expiry/refresh deadlines of every live entry, nothing absent/expired, everything-when-it-fits, bound otherwise.",
        "level_note": SEQ_NOTE,
        "rule": "one case = (configuration, operation sequence, save/load plan: clock offset, target maximum, read chunking). Non-trivial: the round trip ran to completion. Distinct: hash of the case.",
        "components": comp(),
        "assumptions": ["hard I/O errors and truncation are not claimed: C19 does not speak about failing streams"],
    },
    "C20": {
        "technique": "deterministic simulation: harness-side tallies of lookups / loader invocations / automatic removals vs Stats() snapshots (exact in sequential runs)",
        "level_text": "Seeded search with a stats recorder attached; after generated operation sequences with injected loader outcomes the Stats() snapshot must equal the harness tallies exactly (hits, load successes/failures), misses up to the documented ambiguity of panicking computes, evictions within [Overflow, Overflow+Expiration].",
        "level_note": SEQ_NOTE,
        "rule": "one case = (configuration with stats, operation sequence). Non-trivial: loader invocations, hits and misses all occurred. Distinct: hash of the case.",
        "components": comp(),
        "assumptions": ["a Compute whose callback panics may or may not be counted as a lookup"],
    },
}

NOT_APPLICABLE = {
    "C02": "check under construction in this round (concurrent engine); not claimed until it passes on the unchanged tree",
    "C04": "check under construction in this round (concurrent engine); not claimed until it passes on the unchanged tree",
    "C05": "check under construction in this round (concurrent engine); not claimed until it passes on the unchanged tree",
    "C06": "check under construction in this round (concurrent engine); not claimed until it passes on the unchanged tree",
    "C08": "check under construction in this round (concurrent engine); not claimed until it passes on the unchanged tree",
    "C09": "check under construction in this round (concurrent engine); not claimed until it passes on the unchanged tree",
    "C14": "check under construction in this round (concurrent engine); not claimed until it passes on the unchanged tree",
    "C15": "check under construction in this round (component engine); not claimed until it passes on the unchanged tree",
    "C16": "check under construction in this round (component engine); not claimed until it passes on the unchanged tree",
    "C17": "check under construction in this round (component engine); not claimed until it passes on the unchanged tree",
    "C18": "check under construction in this round (component engine); not claimed until it passes on the unchanged tree",
}
