package zzverif

import (
	otter "github.com/maypok86/otter/v2"
)

// Producer order at the cache level (C16): "events from one producer are consumed in the order
// that producer submitted them". A write that replaces or invalidates a value submits one event to
// the write buffer; the maintenance consumer delivers the OnDeletion notification of that value
// when it consumes the event. With an executor that preserves the order of the functions handed to
// it (same-goroutine, or the harness's FIFO queue - the default executor starts one goroutine per
// notification and fixes no order), the notifications for the explicit removals made by one task
// must therefore come in the order of that task's operations, whichever keys they touch.
//
// The operation that removed a value is taken from the atomic event of that value (stamped with
// the task and operation in whose context it fired). Removals made by maintenance itself (Overflow,
// Expiration) are not producer events and are ignored.
func (cr *concRun) checkProducerOrder() {
	ex := cr.cc.Cfg.Executor
	if ex != "sync" && ex != "queued" {
		return
	}
	type origin struct{ task, op int }
	by := map[int]origin{} // value -> operation that removed it explicitly
	dup := map[int]bool{}
	for _, ev := range cr.r.Events {
		if !ev.Atomic || ev.Task < 0 || ev.OpIdx < 0 {
			continue
		}
		if ev.Cause != otter.CauseReplacement && ev.Cause != otter.CauseInvalidation {
			continue
		}
		switch ev.OpKind {
		case "set", "setifabsent", "compute", "computeifabsent", "computeifpresent", "invalidate":
		default:
			continue // loads install through their own path; InvalidateAll removes inline
		}
		if _, seen := by[ev.V]; seen {
			dup[ev.V] = true
		}
		by[ev.V] = origin{ev.Task, ev.OpIdx}
	}
	last := map[int]int{}    // task -> highest operation index whose notification has been delivered
	lastVal := map[int]int{} // task -> the value that notification was for
	for _, ev := range cr.r.Events {
		if ev.Atomic {
			continue
		}
		o, ok := by[ev.V]
		if !ok || dup[ev.V] {
			continue
		}
		cr.probe["producer-order-notifications-checked"]++
		if prev, seen := last[o.task]; seen && o.op < prev {
			cr.fail(P("C16"), "event.producer-order", ev.K, "task %d removed value %d (key %d) in its operation #%d, but the notification for it was delivered after the notification for value %d removed by the same task's later operation #%d (executor %s): that producer's events were consumed out of order", o.task, ev.V, ev.K, o.op, lastVal[o.task], prev, ex)
			return
		}
		if prev, seen := last[o.task]; !seen || o.op > prev {
			last[o.task], lastVal[o.task] = o.op, ev.V
		}
	}
}
