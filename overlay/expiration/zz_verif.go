//go:build verif

package expiration

import "github.com/maypok86/otter/v2/internal/generated/node"

// VerifWalk visits every node linked in the timer wheel.
func (v *Variable[K, V]) VerifWalk(fn func(level, bucket int, n node.Node[K, V])) {
	for i := range v.wheel {
		for j := range v.wheel[i] {
			root := v.wheel[i][j]
			cnt := 0
			for n := root.NextExp(); !node.Equals(n, root) && !node.Equals(n, nil); n = n.NextExp() {
				fn(i, j, n)
				cnt++
				if cnt > 1_000_000 {
					break
				}
			}
		}
	}
}

func (v *Variable[K, V]) VerifTime() uint64 { return v.time }
