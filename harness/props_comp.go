package zzverif

func init() {
	Props["C15"] = &PropSpec{ID: "C15", Engines: []Engine{&compEngine{kind: "hashmap", gen: genHashmapCase}}}
	Props["C16"] = &PropSpec{ID: "C16", Engines: []Engine{&compEngine{kind: "mpsc", gen: genMPSCCase}}}
	Props["C17"] = &PropSpec{ID: "C17", Engines: []Engine{&compEngine{kind: "lossy", gen: genLossyCase}}}
	Props["C18"] = &PropSpec{ID: "C18", Engines: []Engine{&compEngine{kind: "sketch", gen: genSketchCase}}}
}
