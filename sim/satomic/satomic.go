// Package satomic replaces "sync/atomic": each operation is a scheduling point followed by the real
// atomic. Types have the size of the originals.
package satomic

import (
	"sync/atomic"
	"unsafe"

	"verifsim/simrt"
)

type Int32 struct{ v atomic.Int32 }

func (x *Int32) Load() int32        { simrt.Point(simrt.KLoad); return x.v.Load() }
func (x *Int32) Store(v int32)      { simrt.Point(simrt.KStore); x.v.Store(v) }
func (x *Int32) Swap(v int32) int32 { simrt.Point(simrt.KRMW); return x.v.Swap(v) }
func (x *Int32) Add(d int32) int32  { simrt.Point(simrt.KRMW); return x.v.Add(d) }
func (x *Int32) CompareAndSwap(o, n int32) bool {
	simrt.Point(simrt.KRMW)
	return x.v.CompareAndSwap(o, n)
}
func (x *Int32) And(m int32) int32 { simrt.Point(simrt.KRMW); return x.v.And(m) }
func (x *Int32) Or(m int32) int32  { simrt.Point(simrt.KRMW); return x.v.Or(m) }

type Int64 struct{ v atomic.Int64 }

func (x *Int64) Load() int64        { simrt.Point(simrt.KLoad); return x.v.Load() }
func (x *Int64) Store(v int64)      { simrt.Point(simrt.KStore); x.v.Store(v) }
func (x *Int64) Swap(v int64) int64 { simrt.Point(simrt.KRMW); return x.v.Swap(v) }
func (x *Int64) Add(d int64) int64  { simrt.Point(simrt.KRMW); return x.v.Add(d) }
func (x *Int64) CompareAndSwap(o, n int64) bool {
	simrt.Point(simrt.KRMW)
	return x.v.CompareAndSwap(o, n)
}
func (x *Int64) And(m int64) int64 { simrt.Point(simrt.KRMW); return x.v.And(m) }
func (x *Int64) Or(m int64) int64  { simrt.Point(simrt.KRMW); return x.v.Or(m) }

type Uint32 struct{ v atomic.Uint32 }

func (x *Uint32) Load() uint32         { simrt.Point(simrt.KLoad); return x.v.Load() }
func (x *Uint32) Store(v uint32)       { simrt.Point(simrt.KStore); x.v.Store(v) }
func (x *Uint32) Swap(v uint32) uint32 { simrt.Point(simrt.KRMW); return x.v.Swap(v) }
func (x *Uint32) Add(d uint32) uint32  { simrt.Point(simrt.KRMW); return x.v.Add(d) }
func (x *Uint32) CompareAndSwap(o, n uint32) bool {
	simrt.Point(simrt.KRMW)
	return x.v.CompareAndSwap(o, n)
}
func (x *Uint32) And(m uint32) uint32 { simrt.Point(simrt.KRMW); return x.v.And(m) }
func (x *Uint32) Or(m uint32) uint32  { simrt.Point(simrt.KRMW); return x.v.Or(m) }

type Uint64 struct{ v atomic.Uint64 }

func (x *Uint64) Load() uint64         { simrt.Point(simrt.KLoad); return x.v.Load() }
func (x *Uint64) Store(v uint64)       { simrt.Point(simrt.KStore); x.v.Store(v) }
func (x *Uint64) Swap(v uint64) uint64 { simrt.Point(simrt.KRMW); return x.v.Swap(v) }
func (x *Uint64) Add(d uint64) uint64  { simrt.Point(simrt.KRMW); return x.v.Add(d) }
func (x *Uint64) CompareAndSwap(o, n uint64) bool {
	simrt.Point(simrt.KRMW)
	return x.v.CompareAndSwap(o, n)
}
func (x *Uint64) And(m uint64) uint64 { simrt.Point(simrt.KRMW); return x.v.And(m) }
func (x *Uint64) Or(m uint64) uint64  { simrt.Point(simrt.KRMW); return x.v.Or(m) }

type Uintptr struct{ v atomic.Uintptr }

func (x *Uintptr) Load() uintptr          { simrt.Point(simrt.KLoad); return x.v.Load() }
func (x *Uintptr) Store(v uintptr)        { simrt.Point(simrt.KStore); x.v.Store(v) }
func (x *Uintptr) Swap(v uintptr) uintptr { simrt.Point(simrt.KRMW); return x.v.Swap(v) }
func (x *Uintptr) Add(d uintptr) uintptr  { simrt.Point(simrt.KRMW); return x.v.Add(d) }
func (x *Uintptr) CompareAndSwap(o, n uintptr) bool {
	simrt.Point(simrt.KRMW)
	return x.v.CompareAndSwap(o, n)
}

type Bool struct{ v atomic.Bool }

func (x *Bool) Load() bool       { simrt.Point(simrt.KLoad); return x.v.Load() }
func (x *Bool) Store(v bool)     { simrt.Point(simrt.KStore); x.v.Store(v) }
func (x *Bool) Swap(v bool) bool { simrt.Point(simrt.KRMW); return x.v.Swap(v) }
func (x *Bool) CompareAndSwap(o, n bool) bool {
	simrt.Point(simrt.KRMW)
	return x.v.CompareAndSwap(o, n)
}

type Pointer[T any] struct{ v atomic.Pointer[T] }

func (x *Pointer[T]) Load() *T     { simrt.Point(simrt.KLoad); return x.v.Load() }
func (x *Pointer[T]) Store(v *T)   { simrt.Point(simrt.KStore); x.v.Store(v) }
func (x *Pointer[T]) Swap(v *T) *T { simrt.Point(simrt.KRMW); return x.v.Swap(v) }
func (x *Pointer[T]) CompareAndSwap(o, n *T) bool {
	simrt.Point(simrt.KRMW)
	return x.v.CompareAndSwap(o, n)
}

type Value struct{ v atomic.Value }

func (x *Value) Load() any      { simrt.Point(simrt.KLoad); return x.v.Load() }
func (x *Value) Store(v any)    { simrt.Point(simrt.KStore); x.v.Store(v) }
func (x *Value) Swap(v any) any { simrt.Point(simrt.KRMW); return x.v.Swap(v) }
func (x *Value) CompareAndSwap(o, n any) bool {
	simrt.Point(simrt.KRMW)
	return x.v.CompareAndSwap(o, n)
}

func LoadInt32(p *int32) int32       { simrt.Point(simrt.KLoad); return atomic.LoadInt32(p) }
func LoadInt64(p *int64) int64       { simrt.Point(simrt.KLoad); return atomic.LoadInt64(p) }
func LoadUint32(p *uint32) uint32    { simrt.Point(simrt.KLoad); return atomic.LoadUint32(p) }
func LoadUint64(p *uint64) uint64    { simrt.Point(simrt.KLoad); return atomic.LoadUint64(p) }
func LoadUintptr(p *uintptr) uintptr { simrt.Point(simrt.KLoad); return atomic.LoadUintptr(p) }
func LoadPointer(p *unsafe.Pointer) unsafe.Pointer {
	simrt.Point(simrt.KLoad)
	return atomic.LoadPointer(p)
}
func StoreInt32(p *int32, v int32)       { simrt.Point(simrt.KStore); atomic.StoreInt32(p, v) }
func StoreInt64(p *int64, v int64)       { simrt.Point(simrt.KStore); atomic.StoreInt64(p, v) }
func StoreUint32(p *uint32, v uint32)    { simrt.Point(simrt.KStore); atomic.StoreUint32(p, v) }
func StoreUint64(p *uint64, v uint64)    { simrt.Point(simrt.KStore); atomic.StoreUint64(p, v) }
func StoreUintptr(p *uintptr, v uintptr) { simrt.Point(simrt.KStore); atomic.StoreUintptr(p, v) }
func StorePointer(p *unsafe.Pointer, v unsafe.Pointer) {
	simrt.Point(simrt.KStore)
	atomic.StorePointer(p, v)
}
func AddInt32(p *int32, d int32) int32     { simrt.Point(simrt.KRMW); return atomic.AddInt32(p, d) }
func AddInt64(p *int64, d int64) int64     { simrt.Point(simrt.KRMW); return atomic.AddInt64(p, d) }
func AddUint32(p *uint32, d uint32) uint32 { simrt.Point(simrt.KRMW); return atomic.AddUint32(p, d) }
func AddUint64(p *uint64, d uint64) uint64 { simrt.Point(simrt.KRMW); return atomic.AddUint64(p, d) }
func AddUintptr(p *uintptr, d uintptr) uintptr {
	simrt.Point(simrt.KRMW)
	return atomic.AddUintptr(p, d)
}
func SwapInt32(p *int32, v int32) int32     { simrt.Point(simrt.KRMW); return atomic.SwapInt32(p, v) }
func SwapInt64(p *int64, v int64) int64     { simrt.Point(simrt.KRMW); return atomic.SwapInt64(p, v) }
func SwapUint32(p *uint32, v uint32) uint32 { simrt.Point(simrt.KRMW); return atomic.SwapUint32(p, v) }
func SwapUint64(p *uint64, v uint64) uint64 { simrt.Point(simrt.KRMW); return atomic.SwapUint64(p, v) }
func SwapPointer(p *unsafe.Pointer, v unsafe.Pointer) unsafe.Pointer {
	simrt.Point(simrt.KRMW)
	return atomic.SwapPointer(p, v)
}
func CompareAndSwapInt32(p *int32, o, n int32) bool {
	simrt.Point(simrt.KRMW)
	return atomic.CompareAndSwapInt32(p, o, n)
}
func CompareAndSwapInt64(p *int64, o, n int64) bool {
	simrt.Point(simrt.KRMW)
	return atomic.CompareAndSwapInt64(p, o, n)
}
func CompareAndSwapUint32(p *uint32, o, n uint32) bool {
	simrt.Point(simrt.KRMW)
	return atomic.CompareAndSwapUint32(p, o, n)
}
func CompareAndSwapUint64(p *uint64, o, n uint64) bool {
	simrt.Point(simrt.KRMW)
	return atomic.CompareAndSwapUint64(p, o, n)
}
func CompareAndSwapUintptr(p *uintptr, o, n uintptr) bool {
	simrt.Point(simrt.KRMW)
	return atomic.CompareAndSwapUintptr(p, o, n)
}
func CompareAndSwapPointer(p *unsafe.Pointer, o, n unsafe.Pointer) bool {
	simrt.Point(simrt.KRMW)
	return atomic.CompareAndSwapPointer(p, o, n)
}
