package simrt

import (
	"reflect"
	"runtime"
	"unsafe"
)

// Channel operations of instrumented code. Buffered channels keep using the real channel for storage
// (non-blocking operations only) with simulated blocking; unbuffered channels rendezvous through
// the simulator and never touch the real channel.

type chanWaiter struct {
	t    *Task
	val  any
	done bool
	ok   bool
	sel  *Select
	idx  int
}

type chanState struct {
	recvq  []*chanWaiter
	sendq  []*chanWaiter
	closed bool
}

func chanPtr[T any](ch <-chan T) unsafe.Pointer { return *(*unsafe.Pointer)(unsafe.Pointer(&ch)) }
func chanPtrS[T any](ch chan<- T) unsafe.Pointer {
	return *(*unsafe.Pointer)(unsafe.Pointer(&ch))
}

func (w *World) chanState(p unsafe.Pointer) *chanState {
	cs := w.chans[p]
	if cs == nil {
		cs = &chanState{}
		w.chans[p] = cs
	}
	return cs
}

func (w *World) wakeTask(t *Task) {
	if t.state == stBlocked {
		t.state = stRunnable
		w.Strat.OnWake(w, t)
	}
}

func popLive(q *[]*chanWaiter) *chanWaiter {
	for len(*q) > 0 {
		x := (*q)[0]
		*q = (*q)[1:]
		if x.done || (x.sel != nil && x.sel.fired >= 0) {
			continue
		}
		return x
	}
	return nil
}

// Send implements `ch <- v`.
func Send[T any](ch chan<- T, v T) {
	w := W
	if w == nil {
		ch <- v
		return
	}
	w.point(KChan)
	if ch == nil {
		w.block("nil-chan-send", nil)
		return
	}
	p := chanPtrS(ch)
	cs := w.chanState(p)
	if cs.closed {
		panic("send on closed channel")
	}
	if cap(ch) > 0 {
		for {
			select {
			case ch <- v:
				w.notifyRecv(cs)
				return
			default:
			}
			me := &chanWaiter{t: w.cur}
			cs.sendq = append(cs.sendq, me)
			w.block("chan-send", p)
			me.done = true
			if cs.closed {
				panic("send on closed channel")
			}
		}
	}
	if r := popLive(&cs.recvq); r != nil {
		r.val = v
		r.ok = true
		r.done = true
		if r.sel != nil {
			r.sel.fired = r.idx
		}
		w.wakeTask(r.t)
		return
	}
	me := &chanWaiter{t: w.cur, val: v}
	cs.sendq = append(cs.sendq, me)
	for !me.done {
		w.block("chan-send", p)
		if cs.closed && !me.done {
			panic("send on closed channel")
		}
	}
}

// notifyRecv wakes tasks blocked receiving on a buffered channel (they retry).
func (w *World) notifyRecv(cs *chanState) {
	for _, r := range cs.recvq {
		if !r.done {
			w.wakeTask(r.t)
		}
	}
	cs.recvq = cs.recvq[:0]
}

func (w *World) notifySend(cs *chanState) {
	for _, s := range cs.sendq {
		if !s.done {
			w.wakeTask(s.t)
		}
	}
	cs.sendq = cs.sendq[:0]
}

// TrySend is a non-blocking send used by the harness (e.g. clock ticks); it wakes blocked receivers.
func TrySend[T any](ch chan T, v T) bool {
	w := W
	if w == nil {
		select {
		case ch <- v:
			return true
		default:
			return false
		}
	}
	cs := w.chanState(chanPtrS[T](ch))
	if cap(ch) > 0 {
		select {
		case ch <- v:
			w.notifyRecv(cs)
			return true
		default:
			return false
		}
	}
	if r := popLive(&cs.recvq); r != nil {
		r.val = v
		r.ok = true
		r.done = true
		if r.sel != nil {
			r.sel.fired = r.idx
		}
		w.wakeTask(r.t)
		return true
	}
	return false
}

// Recv2 implements `v, ok := <-ch`.
func Recv2[T any](ch <-chan T) (T, bool) {
	w := W
	if w == nil {
		v, ok := <-ch
		return v, ok
	}
	w.point(KChan)
	var zero T
	if ch == nil {
		w.block("nil-chan-recv", nil)
		return zero, false
	}
	p := chanPtr(ch)
	cs := w.chanState(p)
	if cap(ch) > 0 {
		for {
			select {
			case v, ok := <-ch:
				w.notifySend(cs)
				return v, ok
			default:
			}
			me := &chanWaiter{t: w.cur}
			cs.recvq = append(cs.recvq, me)
			w.block("chan-recv", p)
			me.done = true
		}
	}
	if s := popLive(&cs.sendq); s != nil {
		s.done = true
		w.wakeTask(s.t)
		return s.val.(T), true
	}
	if cs.closed {
		return zero, false
	}
	me := &chanWaiter{t: w.cur}
	cs.recvq = append(cs.recvq, me)
	for !me.done {
		w.block("chan-recv", p)
	}
	if !me.ok {
		return zero, false
	}
	return me.val.(T), true
}

// Recv1 implements `<-ch` in expression or statement position.
func Recv1[T any](ch <-chan T) T {
	v, _ := Recv2(ch)
	return v
}

// Close implements close(ch).
func Close[T any](ch chan<- T) {
	w := W
	if w == nil {
		close(ch)
		return
	}
	w.point(KChan)
	p := chanPtrS(ch)
	cs := w.chanState(p)
	close(ch)
	cs.closed = true
	for _, r := range cs.recvq {
		if !r.done && (r.sel == nil || r.sel.fired < 0) {
			r.done = true
			r.ok = false
			if r.sel != nil {
				r.sel.fired = r.idx
			}
			w.wakeTask(r.t)
		}
	}
	cs.recvq = nil
	for _, s := range cs.sendq {
		if !s.done {
			w.wakeTask(s.t)
		}
	}
}

// Select support (receive cases and optional default only).

type selCase interface {
	try(w *World) bool
	enqueue(w *World, s *Select, idx int)
	deliver(cw *chanWaiter)
	rcase() reflect.SelectCase
	setReflect(v reflect.Value, ok bool)
}

type Select struct {
	hasDefault bool
	cases      []selCase
	fired      int
	waiters    []*chanWaiter
}

func NewSelect(hasDefault bool) *Select { return &Select{hasDefault: hasDefault, fired: -1} }

// RecvCase is one `case v, ok := <-ch` of a select.
type RecvCase[T any] struct {
	ch <-chan T
	V  T
	Ok bool
}

func SelRecv[T any](s *Select, ch <-chan T) *RecvCase[T] {
	c := &RecvCase[T]{ch: ch}
	s.cases = append(s.cases, c)
	return c
}

func (c *RecvCase[T]) try(w *World) bool {
	if c.ch == nil {
		return false
	}
	cs := w.chanState(chanPtr(c.ch))
	if cap(c.ch) > 0 {
		select {
		case v, ok := <-c.ch:
			c.V, c.Ok = v, ok
			w.notifySend(cs)
			return true
		default:
			return false
		}
	}
	if s := popLive(&cs.sendq); s != nil {
		s.done = true
		w.wakeTask(s.t)
		c.V, c.Ok = s.val.(T), true
		return true
	}
	if cs.closed {
		c.Ok = false
		return true
	}
	return false
}

func (c *RecvCase[T]) enqueue(w *World, s *Select, idx int) {
	if c.ch == nil {
		return
	}
	cs := w.chanState(chanPtr(c.ch))
	cw := &chanWaiter{t: w.cur, sel: s, idx: idx}
	if cap(c.ch) > 0 {
		cw.sel = nil // buffered: plain wake-and-retry
	}
	cs.recvq = append(cs.recvq, cw)
	s.waiters = append(s.waiters, cw)
}

func (c *RecvCase[T]) deliver(cw *chanWaiter) {
	if cw.ok {
		c.V, c.Ok = cw.val.(T), true
	} else {
		c.Ok = false
	}
}

func (c *RecvCase[T]) rcase() reflect.SelectCase {
	return reflect.SelectCase{Dir: reflect.SelectRecv, Chan: reflect.ValueOf(c.ch)}
}

func (c *RecvCase[T]) setReflect(v reflect.Value, ok bool) {
	c.Ok = ok
	if ok {
		c.V = v.Interface().(T)
	}
}

// Wait blocks until a case is ready and returns its index, or -1 for default.
func (s *Select) Wait() int {
	w := W
	if w == nil {
		cases := make([]reflect.SelectCase, 0, len(s.cases)+1)
		for _, c := range s.cases {
			cases = append(cases, c.rcase())
		}
		if s.hasDefault {
			cases = append(cases, reflect.SelectCase{Dir: reflect.SelectDefault})
		}
		i, v, ok := reflect.Select(cases)
		if i == len(s.cases) {
			return -1
		}
		s.cases[i].setReflect(v, ok)
		return i
	}
	w.point(KChan)
	n := len(s.cases)
	for {
		start := 0
		if n > 1 {
			start = w.SelRng.Intn(n)
		}
		for k := 0; k < n; k++ {
			i := (start + k) % n
			if s.cases[i].try(w) {
				s.cancel()
				return i
			}
		}
		if s.hasDefault {
			return -1
		}
		if n == 0 {
			w.block("select-empty", nil)
			continue
		}
		s.fired = -1
		s.waiters = s.waiters[:0]
		for i, c := range s.cases {
			c.enqueue(w, s, i)
		}
		w.block("select", nil)
		if s.fired >= 0 {
			for _, cw := range s.waiters {
				if cw.sel == s && cw.idx == s.fired && cw.done {
					s.cases[s.fired].deliver(cw)
				}
			}
			i := s.fired
			s.cancel()
			return i
		}
		s.cancel()
	}
}

func (s *Select) cancel() {
	for _, cw := range s.waiters {
		cw.done = true
	}
	s.waiters = s.waiters[:0]
}

var _ = runtime.Gosched
