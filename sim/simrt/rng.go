package simrt

// Rng is a small splitmix64-based generator; every stream is derived from the run seed.
type Rng struct{ s uint64 }

func Mix(a, b uint64) uint64 {
	x := a ^ (b + 0x9e3779b97f4a7c15 + (a << 6) + (a >> 2))
	x ^= x >> 30
	x *= 0xbf58476d1ce4e5b9
	x ^= x >> 27
	x *= 0x94d049bb133111eb
	x ^= x >> 31
	return x
}

func HashString(s string) uint64 {
	h := uint64(14695981039346656037)
	for i := 0; i < len(s); i++ {
		h ^= uint64(s[i])
		h *= 1099511628211
	}
	return h
}

func NewRng(seed, stream uint64) Rng { return Rng{s: Mix(Mix(seed, stream), 0x1234567)} }

func (r *Rng) Uint64() uint64 {
	r.s += 0x9e3779b97f4a7c15
	z := r.s
	z = (z ^ (z >> 30)) * 0xbf58476d1ce4e5b9
	z = (z ^ (z >> 27)) * 0x94d049bb133111eb
	return z ^ (z >> 31)
}

func (r *Rng) Intn(n int) int {
	if n <= 1 {
		return 0
	}
	return int(r.Uint64() % uint64(n))
}

func (r *Rng) Int63n(n int64) int64 {
	if n <= 1 {
		return 0
	}
	return int64(r.Uint64() % uint64(n))
}

func (r *Rng) Float64() float64 { return float64(r.Uint64()>>11) / (1 << 53) }
func (r *Rng) Bool() bool       { return r.Uint64()&1 == 1 }
func (r *Rng) Chance(num, den int) bool {
	return r.Intn(den) < num
}

// Pick returns a random element index weighted by ws.
func (r *Rng) Weighted(ws []int) int {
	tot := 0
	for _, w := range ws {
		tot += w
	}
	if tot <= 0 {
		return 0
	}
	x := r.Intn(tot)
	for i, w := range ws {
		if x < w {
			return i
		}
		x -= w
	}
	return len(ws) - 1
}
