package zzverif

import (
	"sort"
)

type expCall struct {
	reload bool
	keys   []int
	olds   map[int]int
}

func planOf(op *Op) LoadPlan {
	if op.Load != nil {
		return *op.Load
	}
	return LoadPlan{Kind: "val"}
}

func sortedCopy(a []int) []int {
	b := append([]int(nil), a...)
	sort.Ints(b)
	return b
}

func sameInts(a, b []int) bool {
	if len(a) != len(b) {
		return false
	}
	for i := range a {
		if a[i] != b[i] {
			return false
		}
	}
	return true
}

// checkCalls: the loader was invoked exactly as the statement of C10/C11 says (how often, with
// which keys, with which old values).
func (s *seqState) checkCalls(op *Op, loads []*loadRec, want []expCall) {
	m := s.m
	props := P("C10", "C11", "C08")
	if len(loads) != len(want) {
		m.fail(props, "load.calls", op.K, "%s: loader invoked %d times, expected %d (%+v)", op.Kind, len(loads), len(want), want)
		return
	}
	for i, w := range want {
		l := loads[i]
		if l.Reload != w.reload || !sameInts(sortedCopy(l.Keys), sortedCopy(w.keys)) {
			m.fail(props, "load.args", op.K, "%s: loader call %d reload=%v keys=%v, expected reload=%v keys=%v", op.Kind, i, l.Reload, l.Keys, w.reload, w.keys)
			continue
		}
		if w.reload {
			for j, k := range l.Keys {
				if j >= len(l.Olds) || l.Olds[j] != w.olds[k] {
					m.fail(P("C11"), "load.old-value", k, "%s: reload of key %d received old values %v, cached value was %d", op.Kind, k, l.Olds, w.olds[k])
				}
			}
		}
	}
}

func (s *seqState) stale(e *mEntry) bool {
	return s.m.cfg.withRefresh() && !e.RefNever && e.Ref <= s.m.now
}

func (s *seqState) refFailEffect(k int, e *mEntry) {
	d := s.m.cfg.refFail(k, e.V)
	if d > 0 {
		e.Ref, e.RefNever = addDeadline(s.m.now, d)
	}
}

func (s *seqState) applyLoad(op *Op, res *Result, vis *mEntry, base []string, loads []*loadRec) int {
	m, r := s.m, s.r
	k := op.K
	plan := planOf(op)
	props := withProp(base, "C10")
	if vis != nil {
		m.hits++
		if res.Panic || res.V != vis.V || res.Err != "" {
			m.fail(withProp(props, "C11"), "ret.load-hit", k, "Get returned (%d,%q,panic=%v), cached value %d", res.V, res.Err, res.Panic, vis.V)
		}
		oldV := vis.V
		m.readEffect(k)
		if s.stale(vis) {
			m.Probes["reload:"+plan.Kind]++
			s.checkCalls(op, loads, []expCall{{reload: true, keys: []int{k}, olds: map[int]int{k: oldV}}})
			s.loaderRuns(op)
			switch plan.Kind {
			case "val":
				m.loadOK++
				s.pendLoadWrite(k, r.valFor(op, k, 0), "reload")
			case "err":
				m.loadFail++
				s.refFailEffect(k, vis)
			case "notfound":
				m.loadOK++
				s.pendLoadRemove(k)
			case "panic":
				m.loadFail++
				s.refFailEffect(k, vis)
			}
			return 1
		}
		s.checkCalls(op, loads, nil)
		return 0
	}
	m.misses++
	m.Probes["load:"+plan.Kind]++
	s.checkCalls(op, loads, []expCall{{keys: []int{k}}})
	s.loaderRuns(op)
	switch plan.Kind {
	case "val":
		m.loadOK++
		v := r.valFor(op, k, 0)
		if res.Panic || res.V != v || res.Err != "" {
			m.fail(props, "ret.load", k, "Get returned (%d,%q,panic=%v), loader supplied %d", res.V, res.Err, res.Panic, v)
		}
		s.pendLoadWrite(k, v, "load")
	case "err":
		m.loadFail++
		v := r.valFor(op, k, 0)
		if res.Panic || res.V != v || res.Err != "err" {
			m.fail(props, "ret.load-err", k, "Get returned (%d,%q,panic=%v), loader returned (%d, error)", res.V, res.Err, res.Panic, v)
		}
	case "notfound":
		m.loadOK++
		if res.Panic || res.V != 0 || res.Err != "notfound" {
			m.fail(props, "ret.load-notfound", k, "Get returned (%d,%q,panic=%v), loader reported not found", res.V, res.Err, res.Panic)
		}
	case "panic":
		m.loadFail++
		if !res.Panic {
			m.fail(props, "ret.load-panic", k, "loader panic did not propagate: (%d,%q)", res.V, res.Err)
		}
	}
	return 1
}

// bulkPhase applies one bulk loader invocation (keys = the keys it was asked for).
func (s *seqState) bulkPhase(op *Op, keys []int, reload bool) (supplied map[int]int, failed bool) {
	m, r := s.m, s.r
	plan := planOf(op)
	ph := s.phase
	s.phase++
	s.loaderRuns(op)
	inCall := map[int]bool{}
	for _, k := range keys {
		inCall[k] = true
	}
	switch plan.Kind {
	case "err", "panic":
		m.loadFail++
		if reload {
			for _, k := range keys {
				if e := m.visible(k); e != nil {
					s.refFailEffect(k, e)
				}
			}
		}
		return nil, true
	case "notfound":
		m.loadOK++
		if reload {
			for _, k := range keys {
				if e := m.visible(k); e != nil {
					s.refFailEffect(k, e)
				}
			}
		}
		return nil, true
	}
	m.loadOK++
	omit := map[int]bool{}
	for _, k := range plan.Omit {
		omit[k] = true
	}
	supplied = map[int]int{}
	for _, k := range sortedCopy(keys) {
		if omit[k] {
			m.Probes["bulk-omit"]++
			if reload {
				s.pendLoadRemove(k) // a reload that does not find the key removes the entry
			} else {
				s.pending = append(s.pending, &subOp{now: s.m.now, k: k, remove: true, fromCall: true, optional: true})
			}
			continue
		}
		v := r.valFor(op, k, ph)
		supplied[k] = v
		kind := "set"
		if reload {
			kind = "reload"
		}
		s.pendLoadWrite(k, v, kind)
	}
	for _, k := range plan.Extra {
		if inCall[k] {
			continue
		}
		if _, dup := supplied[k]; dup {
			continue
		}
		m.Probes["bulk-extra"]++
		v := r.valFor(op, k, ph)
		supplied[k] = v
		s.pending = append(s.pending, &subOp{now: s.m.now, k: k, v: v, kind: "set", volunteered: true})
	}
	return supplied, false
}

func (s *seqState) applyBulkGet(op *Op, res *Result, loads []*loadRec) int {
	m := s.m
	plan := planOf(op)
	props := P("C01", "C10")
	seen := map[int]bool{}
	var hits, misses, staleKs []int
	olds := map[int]int{}
	want := map[int]int{}
	for _, k := range op.Ks {
		if seen[k] {
			m.Probes["bulk-duplicate-key"]++
			continue
		}
		seen[k] = true
		if e := m.visible(k); e != nil {
			hits = append(hits, k)
			want[k] = e.V
			m.hits++
			m.readEffect(k)
			if s.stale(e) {
				staleKs = append(staleKs, k)
				olds[k] = e.V
			}
		} else {
			if m.expiredUnswept(k) != nil {
				props = withProp(props, "C03")
				m.Probes["bulk-expired-unswept"]++
			}
			misses = append(misses, k)
			m.misses++
		}
	}
	var calls []expCall
	if len(staleKs) > 0 {
		calls = append(calls, expCall{reload: true, keys: staleKs, olds: olds})
		s.bulkPhase(op, staleKs, true)
		m.Probes["bulk-reload"]++
	}
	wantErr := ""
	wantPanic := false
	if len(misses) > 0 {
		calls = append(calls, expCall{keys: misses})
		supplied, failed := s.bulkPhase(op, misses, false)
		if failed {
			switch plan.Kind {
			case "panic":
				wantPanic = true
			default:
				wantErr = plan.Kind
			}
		}
		for _, k := range misses {
			if v, ok := supplied[k]; ok {
				want[k] = v
			}
		}
	}
	s.checkCalls(op, loads, calls)
	if wantPanic {
		if !res.Panic {
			m.fail(props, "ret.bulkget-panic", -1, "bulk loader panic did not propagate")
		}
		return len(calls)
	}
	if res.Panic {
		m.fail(props, "ret.unexpected-panic", -1, "BulkGet panicked: %s", res.Err)
		return len(calls)
	}
	if res.Err != wantErr {
		m.fail(props, "ret.bulkget-err", -1, "BulkGet error %q, expected %q", res.Err, wantErr)
	}
	for _, k := range sortedKeys(res.Map) {
		v := res.Map[k]
		wv, ok := want[k]
		if !ok {
			m.fail(props, "bulk.result-extra", k, "BulkGet(%v) result contains key %d=%d which was neither cached nor supplied for a requested key (plan %+v)", op.Ks, k, v, plan)
		} else if wv != v {
			m.fail(props, "bulk.result-value", k, "BulkGet result[%d]=%d, expected %d", k, v, wv)
		}
	}
	for _, k := range sortedKeys(want) {
		v := want[k]
		if _, ok := res.Map[k]; !ok {
			m.fail(props, "bulk.result-missing", k, "BulkGet(%v) result lacks key %d (expected %d)", op.Ks, k, v)
		}
	}
	return len(calls)
}

func (s *seqState) applyRefresh(op *Op, res *Result, vis *mEntry, base []string, loads []*loadRec) int {
	m, r := s.m, s.r
	k := op.K
	plan := planOf(op)
	props := withProp(base, "C11")
	if !m.cfg.withRefresh() {
		if !res.Nil {
			m.fail(props, "refresh.channel-without-config", k, "Refresh returned a channel although refreshing is not configured")
		}
		s.checkCalls(op, loads, nil)
		return 0
	}
	if res.Nil || res.Panic {
		m.fail(props, "refresh.no-channel", k, "Refresh returned nil=%v panic=%v", res.Nil, res.Panic)
		return 0
	}
	wantV, wantErr := 0, ""
	if vis != nil {
		m.Probes["refresh-present:"+plan.Kind]++
		s.checkCalls(op, loads, []expCall{{reload: true, keys: []int{k}, olds: map[int]int{k: vis.V}}})
		s.loaderRuns(op)
		switch plan.Kind {
		case "val":
			m.loadOK++
			wantV = r.valFor(op, k, 0)
			s.pendLoadWrite(k, wantV, "reload")
		case "err":
			m.loadFail++
			wantV, wantErr = r.valFor(op, k, 0), "err"
			s.refFailEffect(k, vis)
		case "notfound":
			m.loadOK++
			wantErr = "notfound"
			s.pendLoadRemove(k)
		}
	} else {
		m.Probes["refresh-absent:"+plan.Kind]++
		s.checkCalls(op, loads, []expCall{{keys: []int{k}}})
		s.loaderRuns(op)
		switch plan.Kind {
		case "val":
			m.loadOK++
			wantV = r.valFor(op, k, 0)
			s.pendLoadWrite(k, wantV, "load")
		case "err":
			m.loadFail++
			wantV, wantErr = r.valFor(op, k, 0), "err"
		case "notfound":
			m.loadOK++
			wantErr = "notfound"
		}
	}
	if len(res.Refresh) != 1 {
		m.fail(props, "refresh.result-count", k, "Refresh delivered %d results", len(res.Refresh))
		return 1
	}
	got := res.Refresh[0]
	if got.K != k || got.V != wantV || got.Err != wantErr {
		m.fail(props, "refresh.result", k, "Refresh result %+v, expected {%d %d %q}", got, k, wantV, wantErr)
	}
	return 1
}

func (s *seqState) applyBulkRefresh(op *Op, res *Result, loads []*loadRec) int {
	m := s.m
	plan := planOf(op)
	props := P("C01", "C11")
	if !m.cfg.withRefresh() {
		if !res.Nil {
			m.fail(props, "refresh.channel-without-config", -1, "BulkRefresh returned a channel although refreshing is not configured")
		}
		return 0
	}
	if res.Nil || res.Panic {
		m.fail(props, "refresh.no-channel", -1, "BulkRefresh returned nil=%v panic=%v (%s)", res.Nil, res.Panic, res.Err)
		return 0
	}
	seen := map[int]bool{}
	var present, absent []int
	olds := map[int]int{}
	for _, k := range op.Ks {
		if seen[k] {
			continue
		}
		seen[k] = true
		if e := m.visible(k); e != nil {
			present = append(present, k)
			olds[k] = e.V
		} else {
			absent = append(absent, k)
		}
	}
	var calls []expCall
	want := map[int]RefreshView{}
	free := map[int]bool{}
	freeV := map[int]bool{}
	phase := func(keys []int, reload bool) {
		supplied, failed := s.bulkPhase(op, keys, reload)
		for _, k := range keys {
			switch {
			case failed:
				want[k] = RefreshView{K: k, Err: plan.Kind}
				if plan.Kind == "panic" {
					free[k] = true
				}
				if plan.ErrMap {
					// the loader handed back a map next to its error: whether the failed result
					// carries that value or none is not specified, the error is
					freeV[k] = true
				}
			default:
				if v, ok := supplied[k]; ok {
					want[k] = RefreshView{K: k, V: v}
				} else {
					free[k] = true // not found: value / error of the result are not specified
					want[k] = RefreshView{K: k}
				}
			}
		}
	}
	if len(absent) > 0 {
		calls = append(calls, expCall{keys: absent})
		phase(absent, false)
	}
	if len(present) > 0 {
		calls = append(calls, expCall{reload: true, keys: present, olds: olds})
		phase(present, true)
	}
	s.checkCalls(op, loads, calls)
	// exactly one result for every requested distinct key; results for keys the loader volunteered
	// are tolerated (the statement does not speak about them)
	volunteered := map[int]bool{}
	for _, k := range plan.Extra {
		volunteered[k] = true
	}
	got := map[int]int{}
	for _, g := range res.Refresh {
		got[g.K]++
	}
	for _, k := range sortedKeys(seen) {
		if got[k] < 1 || (got[k] > 1 && !volunteered[k]) {
			m.fail(props, "refresh.result-count", k, "BulkRefresh(%v) delivered %d results for requested key %d", op.Ks, got[k], k)
		}
	}
	matched := map[int]bool{}
	for _, g := range res.Refresh {
		w, ok := want[g.K]
		if !ok {
			if !volunteered[g.K] {
				m.fail(props, "refresh.result", g.K, "BulkRefresh result for key %d which was neither requested nor volunteered", g.K)
			}
			continue
		}
		if free[g.K] || ((g.V == w.V || freeV[g.K]) && g.Err == w.Err) {
			matched[g.K] = true
		}
	}
	for _, k := range sortedKeys(want) {
		w := want[k]
		if !matched[k] {
			m.fail(props, "refresh.result", k, "BulkRefresh(%v) results %+v lack the expected result %+v", op.Ks, res.Refresh, w)
		}
	}
	return len(calls)
}
